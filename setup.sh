#!/bin/sh
# offline setup: check the tools, parse every specification, compile the harness
set -e
HERE="$(cd "$(dirname "$0")" && pwd)"
cd "$HERE"
command -v java >/dev/null
test -f /opt/veriftools/tla/tla2tools.jar
/venv/bin/python -c "import ply"
/venv/bin/python -m compileall -q harness >/dev/null
mkdir -p evidence replay
for f in spec/*.tla; do
  m=$(basename "$f" .tla)
  (cd spec && java -cp /opt/veriftools/tla/tla2tools.jar:/opt/veriftools/tla/CommunityModules-deps.jar tla2sany.SANY "$m.tla" >/tmp/sany.$$ 2>&1) || { cat /tmp/sany.$$; rm -f /tmp/sany.$$; echo "SANY failed on $m"; exit 1; }
  if grep -q "error" /tmp/sany.$$; then cat /tmp/sany.$$; rm -f /tmp/sany.$$; echo "SANY errors in $m"; exit 1; fi
done
rm -f /tmp/sany.$$
echo setup ok
