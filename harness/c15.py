# -*- coding: utf-8 -*-
"""
C15 - parsing is a pure function of the text: no history or thread effects.

Reference outcomes (projected tree with positions, or exception type and
message) of a pool of valid and invalid texts x comment flag are computed in
a FRESH interpreter.  Then
 (a) every sequential history of three parse calls over the pool (28^3) is
     performed in one process - all histories after one another, so every
     call also has a long prefix of earlier calls;
 (b) every interleaving, at token granularity, of two parses from
     spec/PureCalls.tla (start / step / finish with two calls alive) is
     realised with real threads that are gated at every token the lexer
     hands to the parser;
 (c) free-running thread pools under several switch intervals.
Every recorded history is validated by spec/PureTrace.tla: each finished
call returns the fresh-process outcome.
"""
import hashlib
import itertools
import json
import os
import subprocess
import sys
import threading

import project
from common import (Report, build_scratch, run_tlc, tmp_dir, HERE_HARNESS)

POOL = [
    'a = 1;',
    'if (a) /re/.test(b); else c /= 2 / d;',
    'x = a / b / c\n++y',
    'f(g(1), function() { return /* c */ 2 })',
    'for (var i = 0; i < (n); i++) { s += i }',
    'f(a, (b);',                      # leaves a plain "(" open
    'a)',                             # surplus ")"
    "x = 'abc",                       # lexical error
    'a b',                            # syntax error, nothing pending
    'function(){}',                   # production error
    'y = 2;  // done\n',              # a comment no later token takes up
    '/* header */ @',                 # lexical error right after a comment
    'a.if / 2 / g; x.typeof /= y',    # reserved words as property names
    'o.delete / 2',                   # (decided by a table of the lexer)
]

RULE = ('(a) sequential histories of 2 and 3 calls over 14 texts x 2 flags '
        '(quick: all pairs + 1500 seeded triples; thorough: all 21952 triples), (b) all token-level interleavings of two calls from '
        'PureCalls.tla for 4 pairs of short texts, (c) thread-pool stress; '
        'one PureTrace record per history.  Non-trivial = the history holds '
        'a failing parse before the last call or two live calls; distinct '
        'by history.')


def outcome(text, flag):
    from calmjs.parse.parsers.es5 import parse
    try:
        tree = parse(text, with_comments=flag)
    except Exception as e:
        return ['exc', type(e).__name__, str(e)]
    return ['ok', repr(snapshot(tree))]


def snapshot(tree):
    from calmjs.parse.asttypes import Node
    out = []

    def walk(n):
        d = vars(n)
        out.append((type(n).__name__, n.lexpos, n.lineno, n.colno,
                    sorted((k, repr(v)) for k, v in d.items()
                           if not isinstance(v, (Node, list))
                           and not k.startswith('_'))))
        for k, v in sorted(d.items()):
            if isinstance(v, Node):
                walk(v)
            elif isinstance(v, list):
                for i in v:
                    if isinstance(i, Node):
                        walk(i)
    walk(tree)
    return out


def dig(o):
    return hashlib.sha1(json.dumps(o).encode()).hexdigest()[:16]


def fresh_reference(scratch, calls):
    """outcomes computed by a fresh interpreter, one call per process run"""
    code = (
        'import sys, json\n'
        'sys.path.insert(0, %r)\n'
        'import common\n'
        'common.bind_scratch(%r)\n'
        'import c15\n'
        'calls = json.loads(sys.stdin.read())\n'
        'print("\\n@@" + json.dumps([c15.outcome(t, f) for t, f in calls]))\n'
        % (HERE_HARNESS, scratch))
    refs = []
    for c in calls:          # one fresh process per call: no history at all
        p = subprocess.run([sys.executable, '-c', code],
                           input=json.dumps([c]).encode(),
                           stdout=subprocess.PIPE, stderr=subprocess.DEVNULL,
                           env=dict(os.environ, PYTHONHASHSEED='0'))
        line = [l for l in p.stdout.decode().splitlines()
                if l.startswith('@@')]
        if not line:
            raise RuntimeError('fresh interpreter failed for %r' % (c,))
        refs.append(json.loads(line[0][2:])[0])
    return refs


# ---- gated threads: one token per step -----------------------------------
class Gate(object):
    def __init__(self):
        self.go = threading.Semaphore(0)
        self.done = threading.Semaphore(0)
        self.free = False
        self.finished = False
        self.result = None


_tls = threading.local()


def gated_parse(gate, text, flag):
    _tls.gate = gate
    try:
        gate.result = outcome(text, flag)
    finally:
        gate.finished = True
        gate.done.release()


def install_gated_lexer():
    import calmjs.parse.parsers.es5 as pe
    from calmjs.parse.lexers.es5 import Lexer

    class GatedLexer(Lexer):
        def __init__(self, *a, **kw):
            super(GatedLexer, self).__init__(*a, **kw)
            inner = self.token

            def token():
                g = getattr(_tls, 'gate', None)
                if g is not None and not g.free:
                    g.done.release()       # reached the next gate
                    g.go.acquire()
                return inner()
            self.token = token
    old = pe.Lexer
    pe.Lexer = GatedLexer
    return old


def run_schedule(hist, calls):
    """perform one PureCalls history with real gated threads"""
    live = []
    events = []
    for op, x in hist:
        res = None
        cid = 0
        if op == 'start':
            g = Gate()
            text, flag = calls[x - 1]
            th = threading.Thread(target=gated_parse, args=(g, text, flag))
            th.daemon = True
            live.append((x, g, th))
            th.start()
            g.done.acquire()           # runs up to its first token
            cid = x
        else:
            cid, g, th = live[x - 1]
            if op == 'step':
                if not g.finished:
                    g.go.release()
                    g.done.acquire()
            else:
                g.free = True
                if not g.finished:
                    g.go.release()
                th.join(20)
                res = g.result
                live.pop(x - 1)
        events.append((op, cid, res))
    for cid, g, th in live:
        g.free = True
        g.go.release()
        th.join(20)
    return events


def main(tier, seed, replay=None):
    rep = Report('C15', 'model_checking', tier, seed)
    rep.assumptions = [
        'outcome = projected tree with positions or (exception type, '
        'message); the reference comes from a fresh interpreter per call',
        'interleavings are enumerated at token granularity (pre-emption '
        'inside a token step is only stressed)']
    scratch = build_scratch()
    calls = [(t, f) for t in POOL for f in (False, True)]
    refs = fresh_reference(scratch, calls)
    refd = [dig(r) for r in refs]
    rep.mark('reference')
    records = []
    info = {}
    nontrivial = set()

    def add(kind, events, ref_for, hist):
        rid = len(records)
        records.append({'id': rid, 'events': events, 'ref': ref_for})
        info[rid] = (kind, hist)

    # (a) sequential histories
    idx = list(range(len(calls)))
    import random
    rng = random.Random(seed)
    if tier == 'quick':
        hs = list(itertools.product(idx, repeat=2)) + [
            tuple(rng.choice(idx) for _ in range(3)) for _ in range(1500)]
    else:
        hs = list(itertools.product(idx, repeat=3))
    for h in hs:
        ev = []
        for c in h:
            o = outcome(*calls[c])
            ev.append(['finish', c + 1, dig(o)])
        add('sequential', ev, refd, list(h))
        rep.count('evaluations')
        if any(refs[c][0] == 'exc' for c in h[:-1]):
            nontrivial.add(('seq',) + h)
    rep.mark('sequential')
    # (b) token-level interleavings of two calls
    old = install_gated_lexer()
    try:
        short = [('a / b', False), ('f(a, (b);', False), ('a)', True),
                 ('if (a) /r/', False), ('x = (1 +', True), ("'ab", False),
                 ('c /= d', True)]
        pairs = [(0, 1), (1, 2), (3, 4)] if tier == 'quick' else \
            [(0, 1), (1, 2), (3, 0), (4, 2), (5, 3), (6, 1), (2, 2), (1, 1)]
        for pa, pb in pairs:
            two = [short[pa], short[pb]]
            fresh2 = [dig(r) for r in fresh_reference(scratch, two)]
            maxlen = 7 if tier == 'quick' else 9
            cfg = ('SPECIFICATION Spec\nCONSTANTS\n Calls = {1, 2}\n'
                   ' MaxLen = %d\n MaxLive = 2\n Kinds = {"finish"}\n'
                   'INVARIANT Emit\n' % maxlen)
            r = run_tlc('PureCalls', cfg='PureCalls.cfg', cfg_text=cfg,
                        modules={'Dummy_': '---- MODULE Dummy_ ----\n====\n'},
                        workers=4)
            rep.add_tlc(r)
            for line in r.lines:
                h = json.loads(line)
                evs = run_schedule(h, two)
                ev = [[op, cid, dig(res) if res is not None else '']
                      for op, cid, res in evs]
                add('interleaved', ev, fresh2, [two, h])
                rep.count('evaluations')
                nontrivial.add(('il', json.dumps([two, h])))
    finally:
        import calmjs.parse.parsers.es5 as pe
        pe.Lexer = old
    rep.mark('interleaved')
    # (c) free-running thread pool
    from concurrent.futures import ThreadPoolExecutor
    rounds = 3 if tier == 'quick' else 12
    for interval in (1e-6, 1e-4, 5e-3):
        sys.setswitchinterval(interval)
        with ThreadPoolExecutor(max_workers=8) as ex:
            for rnd in range(rounds):
                order = [(i * 7 + rnd) % len(calls) for i in range(40)]
                outs = list(ex.map(lambda c: outcome(*calls[c]), order))
                ev = [['finish', c + 1, dig(o)] for c, o in zip(order, outs)]
                add('threadpool', ev, refd, {'interval': interval,
                                             'order': order})
                rep.count('evaluations')
    sys.setswitchinterval(0.005)
    rep.mark('threadpool')
    # digests -> integers; validate
    table = {}

    def ix(d):
        if not d:
            return 0
        return table.setdefault(d, len(table) + 1)
    tf = os.path.join(tmp_dir('c15'), 'pure.ndjson')
    with open(tf, 'w') as f:
        for rec in records:
            f.write(json.dumps({
                'id': rec['id'],
                'events': [[e[0], e[1], ix(e[2]), 1, 1]
                           for e in rec['events']],
                'ref': [ix(x) for x in rec['ref']],
                'args0': 1, 'shared0': 1}) + '\n')
    tr = run_tlc('PureTrace', cfg='PureTrace.cfg',
                 cfg_text='SPECIFICATION Spec\nINVARIANT Verdict\n',
                 modules={'Dummy_': '---- MODULE Dummy_ ----\n====\n'},
                 workers=8, env={'TRACE_FILE': tf}, heap='4g')
    rep.add_tlc(tr)
    cnt = 0
    for line in tr.lines:
        rid, why, k = json.loads(line)
        cnt += 1
        rep.count('traces_validated_against_impl')
        if why == 'ok':
            continue
        kind, h = info[rid]
        ev = records[rid]['events'][k - 1]
        if kind == 'sequential':
            text, flag = calls[ev[1] - 1]
            prev = [('fails' if refs[c][0] == 'exc' else 'parses')
                    for c in h[:k - 1]]
            sig = 'C15 impure kind=%s text=%s after=%s' % (
                kind, 'invalid' if refs[ev[1] - 1][0] == 'exc' else 'valid',
                '+'.join(prev) or 'nothing')
        else:
            sig = 'C15 impure kind=%s' % kind
        rep.violation(sig, '%s history %s: call %d returned something else '
                      'than a fresh interpreter' % (kind, h, ev[1]),
                      {'kind': kind, 'history': h, 'event': k})
    if cnt != len(records):
        raise RuntimeError('PureTrace: %d verdicts for %d records'
                           % (cnt, len(records)))
    rep.cov['distinct_nontrivial'] = len(nontrivial)
    rep.sample({'sequential_history': [list(calls[c]) for c in (5, 6, 25)]})
    rep.sample({'interleaving': info[len(records) - rounds * 3 - 1][1]})
    return rep.finish(RULE)
