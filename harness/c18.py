# -*- coding: utf-8 -*-
"""
C18 - stream read/write helpers: same output, valid map link, no leaked
streams.

spec -> code: TLC enumerates every arrangement (output / map stream as
factory, open stream, same object, none; one node, list, generator) x every
fault point of spec/IOWrite.tla (which also model-checks the modelled step
sequence against the stream contract) and each behaviour is replayed against
the real calmjs.parse.io.write / io.read with instrumented stream doubles
that raise at the chosen call.
code -> spec: the recorded event logs (which go on after the call returned:
what a later call of the helper does to the streams of an earlier one is
part of their history) and outcome facts are validated by
spec/StreamTrace.tla; differences between the recorded log and the log the
model predicted are reported as drift (not a violation).
"""
import base64
import io as pyio
import json
import os

from common import Report, build_scratch, run_tlc, tmp_dir

RULE = ('every (helper, output kind, map kind, nodes kind, fault point) '
        'combination the IOWrite model admits, for each program x printer '
        'configuration x name style of the pool; one replay and one '
        'StreamTrace record each.  Non-trivial = a fault is injected or a '
        'map is written; distinct by (behaviour, program, configuration).')

PROGRAMS = ['a;', 'var x = function(b) { return b + 1; };\n',
            'if (a) {\n  b();\n}\nelse c;\n', "s = 'x\\\ny';"]


class Boom(Exception):
    pass


class Double(object):
    """instrumented stream double"""

    def __init__(self, label, log, name=None, fail=None, text=''):
        self.label = label
        self.log = log
        if name is not None:
            self.name = name
        self.fail = fail or {}
        self.counts = {}
        self.buf = []
        self.text = text
        self.closed = 0
        self.sealed = False     # set when the call it was made for returned
        self.late = 0

    def _op(self, op):
        if self.sealed:
            # touched by a LATER call of the helper: the event still belongs
            # to this stream's history (first few kept, the rest counted)
            self.late += 1
            if self.late <= 3:
                self.log.append([self.label, op, True])
            return
        n = self.counts.get(op, 0) + 1
        self.counts[op] = n
        want = self.fail.get(op)
        if want is not None and (want == 0 or want == n):
            self.log.append([self.label, op, False])
            raise Boom('%s.%s #%d' % (self.label, op, n))
        self.log.append([self.label, op, True])

    def write(self, s):
        self._op('write')
        self.buf.append(s)

    def writelines(self, lines):
        self._op('writelines')
        self.buf.extend(lines)

    def read(self):
        self._op('read')
        return self.text

    def close(self):
        self._op('close')
        self.closed += 1

    def getvalue(self):
        return ''.join(self.buf)


def factory(stream, log, fail=False):
    def open_():
        if fail:
            log.append([stream.label, 'open', False])
            raise Boom('%s factory' % stream.label)
        log.append([stream.label, 'open', True])
        return stream
    return open_


def replay(beh, program, cfg, names):
    """-> StreamTrace record + predicted log + facts"""
    helper, out_kind, map_kind, nodes_kind, fault, predicted, raised = beh
    from calmjs.parse import io as cio
    from calmjs.parse import sourcemap
    from calmjs.parse.parsers.es5 import parse
    from calmjs.parse.exceptions import ECMASyntaxError
    from calmjs.parse.unparsers.es5 import pretty_printer, minify_printer
    log = []
    fname, fk = fault
    out_name, map_name, src_name = names
    rec = {'faulted': fname != 'none', 'propagated': False,
           'sameFailure': False, 'raisedAnything': False, 'contentOK': True,
           'urlOK': True, 'mapOK': True, 'sourceOK': True}
    if helper == 'read':
        text = 'a b' if fname == 'parse' else program
        fail = {'read': 0} if fname == 'read' else {}
        s = Double('out', log, name=src_name, fail=fail, text=text)
        arg = factory(s, log, fail=(fname == 'factory')) \
            if out_kind == 'factory' else s
        try:
            tree = cio.read(parse, arg)
            rec['sourceOK'] = tree.sourcepath == src_name
        except Boom:
            rec['raisedAnything'] = rec['propagated'] = True
            rec['sameFailure'] = fname in ('read', 'factory')
        except ECMASyntaxError as e:
            rec['raisedAnything'] = rec['propagated'] = True
            rec['sameFailure'] = (fname == 'parse' and
                                  type(e) is ECMASyntaxError and
                                  repr(src_name)[1:-1] in str(e))
        except Exception:
            rec['raisedAnything'] = rec['propagated'] = True
        rec['log'] = log
        s.sealed = True
        return rec
    # ---- write ----------------------------------------------------------
    printer = {'pretty': pretty_printer('  '), 'minify': minify_printer(),
               'obfuscate': minify_printer(obfuscate=True)}[cfg]
    tree = parse(program)
    tree.sourcepath = src_name
    frags = [tuple(f) for f in printer(tree)]
    nwrites = sum(len(f[0].splitlines(True)) for f in frags)

    def unparser(node):
        n = 0
        for f in printer(node):
            if fname == 'unparse' and n == nwrites // 2:
                raise Boom('unparse')
            n += len(f.text.splitlines(True))
            yield f
    nodes = {'one': tree, 'list': [tree],
             'generator': (t for t in [tree])}[nodes_kind]
    fail_out = {}
    if fname == 'write':
        fail_out['write'] = fk
    if fname == 'writelines':
        fail_out['writelines'] = 0
    out = Double('out', log, name=out_name, fail=fail_out)
    mp = Double('map', log, name=map_name,
                fail={'write': 0} if fname == 'map_write' else {})
    out_arg = factory(out, log, fail=(fname == 'out_factory')) \
        if out_kind == 'factory' else out
    if map_kind == 'none':
        map_arg = None
    elif map_kind == 'same':
        map_arg = out_arg
    elif map_kind == 'factory':
        map_arg = factory(mp, log, fail=(fname == 'map_factory'))
    else:
        map_arg = mp
    try:
        cio.write(unparser, nodes, out_arg, map_arg)
    except Boom as e:
        rec['raisedAnything'] = rec['propagated'] = True
        rec['sameFailure'] = True
    except Exception as e:
        rec['raisedAnything'] = rec['propagated'] = True
    rec['log'] = log
    rec['nwrites'] = nwrites
    out.sealed = mp.sealed = True
    if not rec['faulted'] and not rec['raisedAnything']:
        # content facts against the lower-level API
        ref_out = pyio.StringIO()
        mappings, sources, names_ = sourcemap.write(
            [type(printer(tree).__next__())(*f) for f in frags]
            if False else printer(tree), ref_out)
        text = ref_out.getvalue()
        got = out.getvalue()
        if map_kind == 'none':
            rec['contentOK'] = got == text
        else:
            rec['contentOK'] = got.startswith(text)
            tail = got[len(text):]
            marker = '\n//# sourceMappingURL='
            rec['urlOK'] = tail.startswith(marker)
            url = tail[len(marker):].strip() if rec['urlOK'] else ''
            args, want_url = sourcemap.verify_write_sourcemap_args(
                mappings, sources, names_, out, out if map_kind == 'same'
                else mp)
            expect = sourcemap.encode_sourcemap(*args)
            if map_kind == 'same':
                prefix = 'data:application/json;base64;charset=utf8,'
                rec['urlOK'] = rec['urlOK'] and url.startswith(prefix)
                try:
                    doc = json.loads(base64.b64decode(
                        url[len(prefix):]).decode('utf8'))
                except Exception:
                    doc = None
            else:
                # relative to the output: same directory in the pool
                rec['urlOK'] = rec['urlOK'] and url == want_url and (
                    os.path.normpath(os.path.join(
                        os.path.dirname(out_name), url)) ==
                    os.path.normpath(map_name)
                    or not os.path.isabs(out_name))
                try:
                    doc = json.loads(mp.getvalue())
                except Exception:
                    doc = None
            rec['mapOK'] = doc == expect
    return rec


def main(tier, seed, replay_case=None):
    rep = Report('C18', 'fault_enumeration', tier, seed)
    rep.assumptions = [
        'the doubles observe open (factory call) / write / writelines / '
        'read / close; a fault is an exception raised by that call',
        'content facts (text equality, URL resolution, map equality with '
        'sourcemap.write + encode_sourcemap) are computed by the harness '
        'and asserted by StreamTrace.tla']
    build_scratch()
    from calmjs.parse.parsers.es5 import parse
    from calmjs.parse.unparsers.es5 import pretty_printer, minify_printer
    programs = PROGRAMS if tier == 'quick' else PROGRAMS + [
        'switch (a) {\n  case 1:\n    b;\n}\n', 'x = [1,,2];', '']
    cfgs = ['pretty', 'minify'] if tier == 'quick' else [
        'pretty', 'minify', 'obfuscate']
    name_styles = [('out.js', 'out.js.map', 'src.js'),
                   ('/tmp/build/out.js', '/tmp/build/maps/out.js.map',
                    '/tmp/src/in.js'),
                   # absolute output and map, relative source (a tree read
                   # from a relatively named stream)
                   ('/tmp/build/out.js', '/tmp/build/out.js.map',
                    'src/in.js')]
    records = []
    info = {}
    nontrivial = set()
    drift = 0
    for program in programs:
        if not program:
            continue
        for cfg in cfgs:
            printer = {'pretty': pretty_printer('  '),
                       'minify': minify_printer(),
                       'obfuscate': minify_printer(obfuscate=True)}[cfg]
            nwrites = sum(len(f.text.splitlines(True))
                          for f in printer(parse(program)))
            r = run_tlc('IOWrite', cfg='IOWrite.cfg', cfg_text=(
                'SPECIFICATION Spec\nCONSTANT NWrites = %d\n'
                'INVARIANT ClosedOnce\nINVARIANT NeverCloseForeign\n'
                'INVARIANT UseBeforeClose\nINVARIANT Propagates\n'
                'INVARIANT Emit\n' % nwrites),
                modules={'Dummy_': '---- MODULE Dummy_ ----\n====\n'},
                workers=2)
            if r.violated:
                raise RuntimeError('IOWrite.tla violates its own contract: %s'
                                   % r.violated)
            rep.add_tlc(r)
            for line in r.lines:
                beh = json.loads(line)
                for names in name_styles:
                    rec = replay(beh, program, cfg, names)
                    rid = len(records)
                    rec['id'] = rid
                    records.append(rec)
                    info[rid] = (beh, program, cfg, names)
                    rep.count('evaluations')
                    if beh[4][0] != 'none' or beh[2] != 'none':
                        nontrivial.add((json.dumps(beh[:5]), program, cfg))
                    rec['returned_at'] = len(rec['log'])
                    if [list(e) for e in beh[5]] != rec['log']:
                        drift += 1
                        rep.notes.setdefault('drift_examples', [])
                        if len(rep.notes['drift_examples']) < 3:
                            rep.notes['drift_examples'].append(
                                {'behaviour': beh[:5], 'predicted': beh[5],
                                 'recorded': rec['log']})
    rep.notes['drift_model_vs_code'] = drift
    tf = os.path.join(tmp_dir('c18'), 'streams.ndjson')
    with open(tf, 'w') as f:
        for rec in records:
            f.write(json.dumps(rec) + '\n')
    tr = run_tlc('StreamTrace', cfg='StreamTrace.cfg',
                 cfg_text='SPECIFICATION Spec\nINVARIANT Verdict\n',
                 modules={'Dummy_': '---- MODULE Dummy_ ----\n====\n'},
                 workers=8, env={'TRACE_FILE': tf})
    rep.add_tlc(tr)
    n = 0
    for line in tr.lines:
        rid, clause = json.loads(line)
        n += 1
        rep.count('traces_validated_against_impl')
        if clause == 'ok':
            continue
        beh, program, cfg, names = info[rid]
        sig = 'C18 stream helper=%s out=%s map=%s nodes=%s fault=%s clause=%s' % (
            beh[0], beh[1], beh[2], beh[3], beh[4][0],
            clause.replace(' ', '-'))
        rep.violation(sig, 'io.%s with %s: %s; events %s' % (
            beh[0], beh[:5], clause, records[rid]['log']),
            {'behaviour': beh[:5], 'program': program, 'cfg': cfg,
             'names': list(names), 'record': records[rid]})
    if n != len(records):
        raise RuntimeError('StreamTrace: %d verdicts for %d records'
                           % (n, len(records)))
    rep.cov['distinct_nontrivial'] = len(nontrivial)
    rep.cov['exhaustive'] = True
    rep.sample({'behaviour': info[len(records) // 2][0][:5],
                'recorded_events': records[len(records) // 2]['log']})
    rep.sample({'behaviour': info[5][0][:5],
                'recorded_events': records[5]['log']})
    return rep.finish(RULE)
