# -*- coding: utf-8 -*-
"""
Reading the product of the ES5Grammar derivation machine (spec/ES5Grammar.tla)
and turning it into the objects the checks work with.  Pure bookkeeping: no
parsing decisions are taken here - the brackets come from the specification.
"""
import json


class SNode(object):
    """A node of the tree dictated by the specification."""
    __slots__ = ('kind', 'attr', 'meta', 'children', 'own', 'first', 'last',
                 'parent', 'idx')

    def __init__(self, kind, attr, meta):
        self.kind = kind
        self.attr = attr
        self.meta = meta
        self.children = []     # SNode | None (absent optional child)
        self.own = []          # indices (into Sentence.tokens) of own tokens
        self.first = None      # index of first / last token in the extent
        self.last = None
        self.parent = None
        self.idx = None        # pre-order index

    def walk(self):
        yield self
        for c in self.children:
            if c is not None:
                for n in c.walk():
                    yield n


class Tok(object):
    __slots__ = ('cls', 'role', 'nl', 'virtual', 'owner', 'text', 'start',
                 'idx', 'lead', 'gapkind', 'nobreak')

    def __init__(self, cls, role, virtual=False):
        self.cls = cls
        self.role = role
        self.nl = False
        self.virtual = virtual
        self.owner = None
        self.text = None       # filled by the concretiser
        self.start = None      # offset in the concretised text
        self.lead = ''         # layout placed before the token
        self.gapkind = 'SP'    # class of that layout (for signatures)
        self.nobreak = False
        self.idx = None

    def __repr__(self):
        return 'Tok(%s%s%s)' % (self.cls, '/' + self.role if self.role else '',
                                ' NL' if self.nl else '')


class Sentence(object):
    """
    tokens:  real tokens in order (virtual semicolons are in `items` only)
    items:   tokens and virtual semicolons in document order
    root:    dictated tree
    """

    def __init__(self, out, nls, theme=None):
        self.theme = theme
        self.raw = (out, list(nls))
        self.model = None
        self.tokens = []
        self.items = []
        self.root = None
        stack = []
        nodes = []
        restricted_next = False
        for it in out:
            tag = it[0]
            if tag == '(':
                n = SNode(it[1], it[2], it[3])
                n.idx = len(nodes)
                nodes.append(n)
                if stack:
                    n.parent = stack[-1]
                    stack[-1].children.append(n)
                else:
                    self.root = n
                stack.append(n)
            elif tag == ')':
                n = stack.pop()
            elif tag == '-':
                stack[-1].children.append(None)
            elif tag == 'R':
                restricted_next = True
            elif tag == 'T':
                t = Tok(it[1], it[2])
                t.nobreak = restricted_next
                restricted_next = False
                t.idx = len(self.tokens)
                t.owner = stack[-1] if stack else None
                self.tokens.append(t)
                self.items.append(t)
                if stack:
                    stack[-1].own.append(t.idx)
                for n in stack:
                    if n.first is None:
                        n.first = t.idx
                    n.last = t.idx
            elif tag == 'V':
                t = Tok(';', 'virtual', virtual=True)
                t.owner = stack[-1] if stack else None
                self.items.append(t)
            else:
                raise ValueError('bad item %r' % (it,))
        if stack:
            raise ValueError('unbalanced product')
        for i in nls:
            self.tokens[i - 1].nl = True
        self.nodes = nodes

    def key(self):
        """token string (classes + line-break flags): identifies the text"""
        return tuple((t.cls, t.nl) for t in self.tokens)

    def classes(self):
        return [t.cls for t in self.tokens]

    def abstract(self):
        return ' '.join(('\\n' if t.nl else '') + t.cls for t in self.tokens)

    def bracketed(self):
        """compact rendering of the dictated tree, for samples / replays"""
        def r(n):
            if n is None:
                return '-'
            inner = ' '.join(r(c) for c in n.children)
            a = (':' + n.attr) if n.attr else ''
            return '(%s%s%s)' % (n.kind, a, (' ' + inner) if inner else '')
        return r(self.root)


def ends_explicitly(sent):
    """the last item of the program is a real token (no virtual semicolon
    at the end): another program may follow it directly"""
    return bool(sent.items) and not sent.items[-1].virtual


def compose(parts, theme='composed'):
    """Programs written after one another are a program (SourceElements is
    a list): the products of the derivation machine are concatenated inside
    one ES5Program.  Every part but the last must end explicitly, so that no
    automatic semicolon insertion depends on what follows."""
    out = []
    nls = []
    ntok = 0
    head = tail = None
    for k, s in enumerate(parts):
        o, n = s.raw
        if o[0][:2] != ['(', 'ES5Program'] or o[-1] != [')']:
            raise ValueError('not a Program product')
        if k < len(parts) - 1 and not ends_explicitly(s):
            raise ValueError('part %d ends in a virtual semicolon' % k)
        head, tail = o[0], o[-1]
        out.extend(o[1:-1])
        nls.extend(i + ntok for i in n)
        ntok += len(s.tokens)
    return Sentence([head] + out + [tail], nls, theme)


def embed(template, inner, theme='embedded'):
    """The statements of the program `inner` put into the (empty) body of
    the first function with an empty body of `template`: the product of `inner`
    (without its ES5Program brackets) is spliced in after the `{` of that FuncExpr / FuncDecl node.  A virtual semicolon
    at the end of `inner` stays justified: a `}` follows it."""
    o, n = template.raw
    io, inn = inner.raw
    if io[0][:2] != ['(', 'ES5Program'] or io[-1] != [')']:
        raise ValueError('not a Program product')
    stack = []
    ntok = 0
    at = None
    for k, it in enumerate(o):
        if it[0] == '(':
            stack.append(it[1])
        elif it[0] == ')':
            stack.pop()
        elif it[0] == 'T':
            ntok += 1
            if it[1] == '{' and stack and stack[-1] in (
                    'FuncExpr', 'FuncDecl') and o[k + 1][:2] == ['T', '}']:
                at = k + 1
                break
    if at is None:
        raise ValueError('template has no function body')
    out = o[:at] + io[1:-1] + o[at:]
    nin = len(inner.tokens)
    nls = [i for i in n if i <= ntok] + [i + ntok for i in inn] + \
        [i + nin for i in n if i > ntok]
    return Sentence(out, nls, theme)


def parse_lines(lines, theme=None):
    out = []
    for line in lines:
        rec = json.loads(line)
        s = Sentence(rec[0], rec[1], theme)
        # what an implementation model (Layer 2, e.g. SlashImpl.tla) says
        # about this sentence, if the theme was run with one
        s.model = rec[2] if len(rec) > 2 else None
        out.append(s)
    return out


# kinds whose `value` is the text of their own tokens
VALUE_KINDS = {'Identifier', 'PropIdentifier', 'Number', 'String', 'Regex',
               'Boolean', 'Null', 'Debugger', 'EmptyStatement'}


def spec_tree(sent, collapse_grouping=True):
    """
    Nested-list form of the dictated tree with leaf spellings filled in from
    the concretised tokens: [kind, attr_or_value, child, ...]; an absent
    optional child is None.
    Named convention (DESIGN appendix A): directly nested grouping
    operators collapse into one.
    """
    toks = sent.tokens

    def conv(n):
        if n is None:
            return None
        if collapse_grouping and n.kind == 'GroupingOp':
            c = n.children[0]
            while c is not None and c.kind == 'GroupingOp':
                n = c
                c = n.children[0]
        if n.kind in VALUE_KINDS:
            if n.meta == 'placeholder':
                val = ';'
            else:
                val = ''.join(toks[i].text for i in n.own
                              if toks[i].role != 'term')
            return [n.kind, val]
        if n.kind == 'Elision':
            return [n.kind, len(n.own)]
        return [n.kind, n.attr] + [conv(c) for c in n.children]
    return conv(sent.root)
