# -*- coding: utf-8 -*-
"""
C02 - minified output parses back to the same program; no token fusion;
only ASI-restorable semicolons are dropped.

Programs from the ES5Grammar derivation machine (themes subsampled by tree
shape and by adjacent token-class pair, + simulate), rich spellings; each is
parsed and minified with drop_semi off and on.  Decided per printed text
  - by the real parser: re-parse gives the same tree modulo the two
    documented normalisations (line continuations stripped from strings,
    stand-alone empty statements of statement lists dropped)
  - by TLC on the text aligned to the tokens the derivation dictates
    (PrintTrace.tla): same token sequence, every absent token is a `;` that
    automatic semicolon insertion restores or a stand-alone empty statement
    - never a for-header `;` nor the `;` that is a statement body -, and no
    two neighbours fuse under the ES5 lexical grammar (ES5Lexical.tla).
"""
import random

import gen
import impl
import printing
import project
from common import Report, build_scratch
from concretise import concretise, layout_variant
from c11 import _freeze
from c01 import select, lastcls, firstcls
from sentence import spec_tree

THEMES = ['prec', 'prec2', 'lhs', 'stmt', 'iter', 'ctrl', 'lit', 'acc',
          'switch', 'slash', 'asi2']
CONFIGS = [('minify', False), ('minify+drop', True)]

RULE = ('TLC-derived programs (11 themes subsampled by tree shape and by '
        'adjacent token-class pair and by what follows / precedes each construct, + simulate, + compositions into longer programs and twins), rich spellings, x {drop_semi '
        'off, on}; each minified text is one PrintTrace record and one '
        're-parse evaluation; the evidence lists the distinct (kind, last '
        'char class | first char class, kind) adjacencies with empty '
        'separator that were judged by ES5Lexical.  Non-trivial = at least 3 '
        'tokens; distinct by (source text, configuration).')


def _minify(text):
    from calmjs.parse.parsers.es5 import parse
    from calmjs.parse.unparsers.es5 import minify_print
    try:
        tree = parse(text)
        t1 = project.project(tree)
    except Exception as e:
        return ('noparse', repr(e))
    outs = []
    for name, drop in CONFIGS:
        try:
            out = minify_print(tree, drop_semi=drop)
        except Exception as e:
            outs.append(('print-exc', repr(e)))
            continue
        try:
            t2 = project.project(parse(out))
            d = project.first_diff(
                printing.normalise_minified(t1, drop),
                printing.normalise_minified(t2, drop))
            outs.append(('ok', out, d))
        except Exception as e:
            outs.append(('reparse-exc', out, repr(e)))
    return ('ok', t1, outs)


def main(tier, seed, replay=None):
    rep = Report('C02', 'model_checking', tier, seed)
    rep.assumptions = [
        'expected tokens and their roles (terminator / empty statement / '
        'for header, statement-list member or statement body) come from the '
        'derivation; alignment is plain sequential string matching',
        'character classification for ES5Lexical.tla is done by the harness',
        'programs the parser rejects or reads differently from the '
        'derivation are skipped here (C03 / C04 / C05)']
    build_scratch()
    rng = random.Random(seed)
    themes = gen.run_themes(THEMES, tier, rep, jobs=11)
    r, deep = gen.simulate(1500 if tier == 'quick' else 8000,
                           maxtok=30 if tier == 'quick' else 40, maxnl=1,
                           seed=seed + 13, workers=8)
    rep.add_tlc(r)
    keep = select(themes, deep, tier)
    rep.mark('generated')
    work = []
    sents = []
    for j, s in enumerate(keep):
        for v in range(2):
            gaps = layout_variant(s, rng, 0.1) if v else None
            text = concretise(s, seed=rng.randrange(1000), pools='rich',
                              gaps=gaps)
            work.append(text)
            sents.append(_freeze(s))
    comps = gen.compositions(themes, rng, tier, names=THEMES)
    for s, sp in comps:
        work.append(concretise(s, seed=rng.randrange(1000), pools='rich',
                               spellings=sp))
        sents.append(s)
    rep.notes['compositions'] = len(comps)
    res = impl.pmap(_minify, work, chunk=100)
    rep.mark('printed')
    cases = []
    pairs = set()
    info = {}
    skipped = 0
    distinct = set()
    for i, (text, sent, r) in enumerate(zip(work, sents, res)):
        if r[0] != 'ok' or r[1] != spec_tree(sent):
            skipped += 1
            continue
        for (cfg, drop), o in zip(CONFIGS, r[2]):
            cid = len(cases)
            if o[0] == 'print-exc':
                rep.violation('C02 printer-raised cfg=%s' % cfg,
                              'minify_print raised %s on %r' % (o[1], text),
                              {'text': text, 'cfg': cfg})
                continue
            out = o[1]
            rep.count('evaluations')
            if len(sent.tokens) >= 3:
                distinct.add((text, cfg))
            if o[0] == 'reparse-exc':
                rep.violation('C02 reparse rejected cfg=%s' % cfg,
                              'minified %r of %r does not parse: %s'
                              % (out, text, o[2]),
                              {'text': text, 'cfg': cfg, 'output': out})
            elif o[2] is not None:
                rep.violation('C02 reparse tree-differs cfg=%s at=%s'
                              % (cfg, o[2][0].split('/')[-1]),
                              'minified %r of %r reads as a different '
                              'program: %r' % (out, text, o[2]),
                              {'text': text, 'cfg': cfg, 'output': out})
            items = printing.expected_items(sent, strip_continuations=True)
            aligned = printing.align(items, out)
            printing.rebalance_semicolons(items)
            pres = [x for x in items if x.present]
            for a, b in zip(pres, pres[1:]):
                pairs.add(printing.pair_key(a, b))
            cases.append((cid, items, aligned, out, {'cfg': cfg}))
            info[cid] = (text, cfg, sent)
    rep.notes['skipped'] = skipped
    # the programs the repository's own tests parse (DESIGN 4.5): no
    # derivation, so only the clauses the real parser decides
    corpus = gen.suite_corpus(rep)
    cres = impl.pmap(_minify, corpus, chunk=50)
    for text, r in zip(corpus, cres):
        if r[0] != 'ok':
            continue
        for (cfg, drop), o in zip(CONFIGS, r[2]):
            rep.count('evaluations')
            if o[0] == 'print-exc':
                rep.violation('C02 printer-raised cfg=%s' % cfg,
                              'minify_print raised %s on %r' % (o[1], text),
                              {'text': text, 'cfg': cfg})
            elif o[0] == 'reparse-exc':
                rep.violation('C02 reparse rejected cfg=%s' % cfg,
                              'minified %r of %r does not parse: %s'
                              % (o[1], text, o[2]),
                              {'text': text, 'cfg': cfg, 'output': o[1]})
            elif o[2] is not None:
                rep.violation('C02 reparse tree-differs cfg=%s at=%s'
                              % (cfg, o[2][0].split('/')[-1]),
                              'minified %r of %r reads as a different program: '
                              '%r' % (o[1], text, o[2]),
                              {'text': text, 'cfg': cfg, 'output': o[1]})
    fuse = printing.fuse_verdicts(pairs, rep)
    # coverage of the property's quantifier: adjacencies without separator
    adj = {}
    for (a, ka, sep, b, kb), ok in fuse.items():
        if sep == '':
            k = '%s/%d|%d/%s' % (ka, lastcls(a), firstcls(b), kb)
            adj[k] = adj.get(k, 0) + 1
    rep.notes['adjacencies_without_separator'] = len(adj)
    rep.notes['distinct_adjacent_pairs'] = len(pairs)
    recs = printing.print_records(cases, fuse, lambda m: None)
    verdicts = printing.validate(recs, 'c02', rep)
    rep.mark('validated')
    for cid, items, aligned, out, meta in cases:
        why, k = verdicts[cid]
        rep.count('traces_validated_against_impl')
        if why == 'ok':
            continue
        text, cfg, sent = info[cid]
        x = items[k] if 0 <= k < len(items) else None
        if why == 'tokens fuse':
            pres = [y for y in items if y.present]
            a = pres[pres.index(x) - 1]
            sig = 'C02 fusion left=%s/%s right=%s/%s mode=%s' % (
                a.kind, lastcls(a.text), x.kind, firstcls(x.text), cfg)
        elif x is not None and not x.present:
            owner = ''
            follower = next((y for y in items[k + 1:] if y.present), None)
            sig = 'C02 dropsemi clause=%s role=%s follower=%s mode=%s' % (
                why.replace(' ', '-'), x.role,
                (follower.cls if follower.kind == 'PUNCT' else follower.kind)
                if follower else 'EOF', cfg)
        else:
            sig = 'C02 %s mode=%s' % (why.replace(' ', '-'), cfg)
        rep.violation(sig, 'PrintTrace.tla rejects the %s output %r of %r at '
                      'item %d: %s' % (cfg, out, text, k, why),
                      {'text': text, 'cfg': cfg, 'output': out, 'item': k,
                       'abstract': sent.abstract()})
    rep.cov['distinct_nontrivial'] = len(distinct)
    if cases:
        c = cases[len(cases) // 2]
        rep.sample({'source': info[c[0]][0], 'cfg': info[c[0]][1],
                    'output': c[3]})
    return rep.finish(RULE)
