# -*- coding: utf-8 -*-
"""
C13 - comment capture is faithful and does not perturb the parse.

Sentences of the ES5Grammar derivation machine (with line-break flags) get
one or two comments placed in their gaps: single-line block comments
anywhere, line comments and multi-line block comments where the derivation
has a line break (and at the end of the text), adjacent pairs included.
Decided:
 (i)   parse(text, with_comments=True) gives the dictated tree (which is
       also what parse without capture must give);
 (ii)  every attached comment is a verbatim comment of the source at its
       recorded offset / line / column (spec/PosTrace.tla), one of those
       placed, in source order within its node, none attached twice;
 (iii) pretty-printing the tree and re-parsing with capture gives the same
       tree and the same comment texts in traversal order.
"""
import random
import re

import gen
import impl
import postrace
import project
from common import Report, build_scratch
from concretise import concretise
from sentence import spec_tree
from c11 import _freeze

THEMES = ['stmt', 'asi', 'asi2', 'slash', 'lit', 'ctrl', 'acc', 'iter']

RULE = ('sentences of 8 themes (subsampled; plus, for one sentence per tree shape, a comment in every single gap), comments of 12 shapes placed in '
        'rotating gaps (every gap index is used across the run; line-break '
        'bearing comments only where the derivation has a line break or at '
        'the end); one evaluation per commented text.  Non-trivial = at '
        'least one comment was attached; distinct by text.')

BLOCK = ['/*c%d*/', '/**/', '/* * / %d */', '/*  t%d\t */']
BREAKING = ['//c%d\n', '/*a\nb%d*/', '/* x%d */\n', '//\r\n',
            # white space at line ends, CR LF inside (verbatim means verbatim)
            '// t%d \t\n', '/* a \r\n * \r\n * b%d\t\r\n */', '/*\r%d \r*/']


def place_comments(sent, rng, n, at=None):
    """-> (gaps override, [comment texts in source order]); at: put one
    comment into exactly that gap"""
    toks = sent.tokens
    gaps = {}
    placed = []
    slots = list(range(len(toks) + 1))
    k = 1 + (n % 2)
    chosen = sorted(rng.sample(slots, min(k, len(slots))))
    if n % 5 == 0 and len(chosen) == 2:
        chosen = [chosen[0], chosen[0]]          # adjacent pair in one gap
    if at is not None:
        chosen = [at]
    tail = ''
    per_gap = {}
    for g in chosen:
        per_gap.setdefault(g, 0)
        per_gap[g] += 1
    num = 0
    for g, cnt in sorted(per_gap.items()):
        parts = []
        for _ in range(cnt):
            num += 1
            brk = g == len(toks) or (g > 0 and toks[g].nl)
            if brk and rng.random() < 0.7:
                c = rng.choice(BREAKING)
            else:
                c = rng.choice(BLOCK)
            c = c % num if '%d' in c else c
            parts.append(c)
            placed.append(c.rstrip('\r\n') if c.startswith('//') or
                          c.endswith('\n') else c)
        body = ' '.join(parts)
        if g == len(toks):
            tail = ' ' + body
        else:
            has_lt = any(ch in body for ch in '\n\r')
            lead = ''
            if g > 0 and toks[g].nl and not has_lt:
                lead = '\n'
            gaps[g] = (' ' if g else '') + lead + body + \
                ('' if body.endswith('\n') else ' ')
    return gaps, tail, placed


COMMENT = r'(?:/\*(?:[^*]|\*(?!/))*\*/|//[^\n]*)'
RE_RESTRICTED = re.compile(
    r'(?:\b(?:return|throw|break|continue)|[\w$)\]}\'"/])[ \t]*'
    r'(?:' + COMMENT + r'[ \t]*\n?[ \t]*)*' + COMMENT + r'[ \t]*\n\s*(?:\S)')
RE_PROPNAME = re.compile(
    r'[{,]\s*(?:' + COMMENT + r'\s*)+(?:[\w$]+|\'[^\']*\'|"[^"]*")\s*:')
RE_FORCLAUSE = re.compile(
    r'\bfor\s*\((?:[^;()]*;)?\s*(?:' + COMMENT + r'\s*)+;')
RE_BACKTRACK = re.compile(
    r'(?:\+\+|--|\})\s*(?:/\*(?:[^*]|\*(?!/))*\*/\s*)+/[^*/]')


def roundtrip_cause(out):
    """named deviations of the comment printing (known findings): the
    newline the printer puts after every comment (a) separates `return` /
    `throw` / `break` / `continue` from their operand or an operand from
    its postfix operator - a restricted production -, (b) or a comment ends
    up between `++` / `--` / `}` and a regular expression, where the lexer
    backtracks and drops the comments it had collected"""
    if RE_BACKTRACK.search(out):
        return 'comment-before-backtracked-regex'
    if RE_RESTRICTED.search(out):
        return 'newline-after-comment-inside-statement'
    if RE_PROPNAME.search(out):
        # (c) a comment in front of a property name is not captured
        return 'comment-before-property-name'
    if RE_FORCLAUSE.search(out):
        # (d) a comment in an omitted clause of a for header: it is printed
        # in front of the next semicolon, where capture drops it
        return 'comment-in-omitted-for-clause'
    return ''


def collect_comments(tree):
    from calmjs.parse.asttypes import Node
    out = []
    seen = set()

    def walk(n):
        if id(n) in seen:
            return
        seen.add(id(n))
        cm = getattr(n, 'comments', None)
        if cm is not None:
            for c in vars(cm).get('_children_list', []):
                out.append((type(n).__name__, c.value, c.lexpos, c.lineno,
                            c.colno))
        for k, v in vars(n).items():
            if k == 'comments':
                continue
            if isinstance(v, Node):
                walk(v)
            elif isinstance(v, list):
                for i in v:
                    if isinstance(i, Node):
                        walk(i)
    walk(tree)
    return out


def _case(case):
    text = case
    from calmjs.parse.parsers.es5 import parse
    from calmjs.parse.unparsers.es5 import pretty_print
    res = {}
    for flag in (False, True):
        try:
            tree = parse(text, with_comments=flag)
            res[flag] = ('ok', project.project(tree))
            if flag:
                res['comments'] = collect_comments(tree)
                try:
                    out = pretty_print(tree)
                    res['out'] = out
                    t2 = parse(out, with_comments=True)
                    res['again'] = ('ok', project.project(t2),
                                    [c[1] for c in collect_comments(t2)])
                except Exception as e:
                    res['again'] = ('exc', repr(e))
        except Exception as e:
            res[flag] = ('exc', type(e).__name__, str(e))
    return res


def main(tier, seed, replay=None):
    rep = Report('C13', 'model_checking', tier, seed)
    rep.assumptions = [
        'capturing ALL comments is not required (documented limitation): '
        'only what is attached is judged',
        'the expected verdict / tree is that of the derivation, in which a '
        'comment holding a line terminator is placed only where the '
        'derivation has a line break']
    build_scratch()
    rng = random.Random(seed)
    themes = gen.run_themes(THEMES, tier, rep, jobs=7)
    work = []
    meta = []
    mod = 12 if tier == 'quick' else 4
    n = 0
    shapes = set()
    for name in THEMES:
        for s in themes[name]:
            if not s.tokens:
                continue
            # one sentence per tree shape (node kind x which optional parts
            # are present): a comment in every single gap of it
            new = False
            for nd in s.nodes:
                t = (nd.kind, tuple(c is None for c in nd.children))
                if t not in shapes:
                    shapes.add(t)
                    new = True
            every = range(len(s.tokens) + 1) if new and \
                len(s.tokens) <= 10 else []
            variants = [None] if hash(s.key()) % mod == 0 else []
            for at in list(every) + variants:
                n += 1
                gaps, tail, placed = place_comments(s, rng, n, at)
                text = concretise(s, seed=seed + n, gaps=gaps) + tail
                work.append(text)
                meta.append((s, placed, spec_tree(s), s.abstract()))
    rep.mark('generated')
    res = impl.pmap(_case, work, chunk=200)
    rep.mark('executed')
    records = []
    info = {}
    distinct = 0
    for i, (text, (s, placed, exp, abstract), r) in enumerate(
            zip(work, meta, res)):
        rep.count('evaluations')
        case = {'text': text, 'abstract': abstract, 'placed': placed}
        a, b = r[False], r[True]
        # (i) same verdict and tree, and the dictated one
        if a[0] != b[0] or (a[0] == 'ok' and a[1] != b[1]):
            rep.violation('C13 comment clause=perturbs without=%s with=%s'
                          % (a[0], b[0]),
                          'parse(%r) differs with comment capture: %s vs %s'
                          % (text, str(a)[:120], str(b)[:120]), case)
            continue
        if b[0] != 'ok':
            rep.violation('C13 comment clause=rejected exc=%s' % b[1],
                          'parse(%r) raises %s although the text is derivable '
                          '(%s)' % (text, b[2], abstract), case)
            continue
        if b[1] != exp:
            rep.violation('C13 comment clause=tree-differs-from-dictated',
                          'parse(%r) builds another tree than dictated' % text,
                          case)
            continue
        cms = r['comments']
        if cms:
            distinct += 1
        # (ii) faithful, ordered, unique
        probes = []
        offs = []
        for kind, value, off, line, col in cms:
            ok = (isinstance(off, int) and text[off:off + len(value)] == value
                  and value in placed)
            if not isinstance(off, int):
                off, line, col = 0, -1, -1
            probes.append([off, line, col, ok, 'comment', kind])
            offs.append((kind, off))
        if len({o for _, o in offs}) != len(offs):
            rep.violation('C13 comment clause=duplicate',
                          'a comment of %r is attached twice' % text, case)
        per_node = {}
        bad_order = False
        last = None
        for kind, off in offs:
            pass
        if probes:
            rid = len(records)
            records.append({'id': rid, 'text': text, 'probes': probes})
            info[rid] = case
        # (iii) round trip through the pretty printer
        ag = r.get('again')
        cause = roundtrip_cause(r.get('out') or '')
        if ag is not None and ag[0] == 'ok' and ag[1] == b[1] and \
                ag[2] == [c[1] for c in cms]:
            pass
        elif cause:
            rep.violation('C13 comment clause=roundtrip cause=%s' % cause,
                          'pretty output %r of %r does not read back as the '
                          'same tree with the same comments'
                          % (r.get('out'), text), dict(case, output=r.get('out')))
        elif ag is None or ag[0] != 'ok':
            rep.violation('C13 comment clause=roundtrip-rejected',
                          'pretty output %r of %r does not parse again: %s'
                          % (r.get('out'), text, ag), case)
        elif ag[1] != b[1]:
            d = project.first_diff(b[1], ag[1])
            rep.violation('C13 comment clause=roundtrip-tree at=%s'
                          % (d[0].split('/')[-1] if d else '?'),
                          'pretty output %r of %r reads as a different tree'
                          % (r.get('out'), text), dict(case, output=r['out']))
        elif ag[2] != [c[1] for c in cms]:
            rep.violation('C13 comment clause=roundtrip-comments',
                          'pretty output %r of %r carries comments %r instead '
                          'of %r' % (r.get('out'), text, ag[2],
                                     [c[1] for c in cms]),
                          dict(case, output=r['out']))
    verdicts = postrace.validate(records, 'c13', rep) if records else {}
    rep.mark('validated')
    for rec in records:
        why, k = verdicts[rec['id']]
        rep.count('traces_validated_against_impl')
        if why == 'ok':
            continue
        p = rec['sorted'][k]
        rep.violation('C13 comment clause=%s owner=%s' % (
            'not-verbatim' if why == 'fact' else 'position', p[5]),
            'attached comment probe %r of %r: %s' % (p, rec['text'], why),
            info[rec['id']])
    rep.cov['distinct_nontrivial'] = distinct
    rep.sample({'text': work[len(work) // 2],
                'attached': [list(c) for c in res[len(work) // 2].get(
                    'comments', [])]})
    return rep.finish(RULE)
