# -*- coding: utf-8 -*-
"""C20 - see c01.py (shared runner)."""
import c01


def main(tier, seed, replay=None):
    return c01.main_for('C20', tier, seed, replay)
