# -*- coding: utf-8 -*-
"""
C07 - name obfuscation is a consistent, capture-free renaming.

spec -> code: TLC enumerates abstract programs as scope trees
(spec/ScopeGen.tla: function declarations / named and anonymous function
expressions / catch blocks, parameters, hoisted vars, references, property
names over a small name pool with free names; exhaustive up to MaxItems,
tlc -simulate for deeper ones); each is rendered to text, parsed and printed
with and without obfuscation in every configuration.
code -> spec: the identifier occurrences of both outputs are aligned (the
outputs may differ in identifier tokens only) and the renaming is validated
by spec/ScopeTrace.tla, which resolves every occurrence by the ES5 scoping
rules before and after: same variable after iff same before, free names,
property names and (unless requested) top-level names unchanged, no
generated name is a reserved word.  Wide scopes (up to 600 names) reach
two-letter names and the keywords `do`, `if`, `in`.
"""
import json
import os
import re

import impl
from common import Report, build_scratch, run_tlc, tmp_dir

CONFIGS = [
    ('minify', dict(obfuscate=True)),
    ('minify+globals', dict(obfuscate=True, obfuscate_globals=True)),
    ('minify+shadow', dict(obfuscate=True, shadow_funcname=True)),
    ('minify+drop+globals+shadow', dict(
        obfuscate=True, obfuscate_globals=True, shadow_funcname=True,
        drop_semi=True)),
    ('indent+obfuscate', None),
]

RULE = ('every abstract program of ScopeGen.tla up to MaxItems items over '
        '{a, b, x} (depth 2, one parameter), seeded tlc -simulate programs '
        'of up to 9 items / depth 3 over 5 names, and wide scopes of 53 / 54 '
        '/ 60 / 600 declarations, x 5 printer configurations; one ScopeTrace '
        'record per (program, configuration).  Non-trivial = a name is '
        'declared in a nested scope; distinct by (program, configuration).')

WORD = re.compile(r'[A-Za-z_$][A-Za-z0-9_$]*')


def render_text(out):
    """token list of ScopeGen.tla -> program text (the scope table and the
    occurrence list come from spec/ObfuscatorImpl.tla, not from here)"""
    parts = []
    closers = []
    pending = None           # index in parts where the parameters go
    params = []

    def close_params():
        nonlocal pending, params
        if pending is not None:
            parts[pending] = ','.join(params)
            pending, params = None, []
    for kind, name in out:
        if kind == 'P':
            params.append(name)
            continue
        close_params()
        if kind == ')':
            parts.append(closers.pop())
        elif kind == 'V':
            parts.append('var %s=1;' % name)
        elif kind == 'R':
            parts.append('%s;' % name)
        elif kind == 'p':
            parts.append('this.%s;' % name)
        elif kind == 'F':
            parts.append('function %s(' % name)
            parts.append('')
            pending = len(parts) - 1
            parts.append('){')
            closers.append('}')
        elif kind == 'E':
            parts.append('(function %s(' % name if name else '(function(')
            parts.append('')
            pending = len(parts) - 1
            parts.append('){')
            closers.append('})();')
        elif kind == 'C':
            parts.append('try{}catch(%s){' % name)
            closers.append('}')
        else:
            raise ValueError(kind)
    close_params()
    return ''.join(parts)


def wide_program(k, nested):
    """a scope with k declarations so that generated names get two letters"""
    names = ['v%d' % i for i in range(k)]
    body = 'var ' + ','.join(names) + ';' + ''.join('%s;' % n for n in names)
    scopes = [['program', 0], ['function', 1]]
    occs = [[1, 'funcdecl', 'wide']]
    occs += [[2, 'var', n] for n in names] + [[2, 'ref', n] for n in names]
    text = 'function wide(){' + body
    if nested:
        scopes.append(['function', 2])
        occs.append([2, 'funcdecl', 'inner'])
        occs.append([3, 'param', 'p'])
        occs += [[3, 'ref', n] for n in names[:5]] + [[3, 'ref', 'p'],
                                                      [3, 'ref', 'freeName']]
        text += 'function inner(p){' + ''.join(
            '%s;' % n for n in names[:5]) + 'p;freeName;}'
    text += '}'
    return text, scopes, occs


def _print(case):
    text, which = case
    from calmjs.parse.parsers.es5 import parse
    from calmjs.parse.unparsers.es5 import minify_print, Unparser
    from calmjs.parse import rules
    from calmjs.parse.lexers.es5 import Lexer
    try:
        tree = parse(text)
    except Exception as e:
        return ('noparse', repr(e))
    res = {}
    for name, kw in CONFIGS:
        if name not in which:
            continue
        try:
            if kw is None:
                plain = ''.join(c.text for c in Unparser(
                    rules=(rules.indent(indent_str=' '),))(tree))
                obf = ''.join(c.text for c in Unparser(rules=(
                    rules.obfuscate(reserved_keywords=Lexer.keywords_dict.keys()),
                    rules.indent(indent_str=' ')))(tree))
            else:
                k2 = {k: v for k, v in kw.items() if k == 'drop_semi'}
                plain = minify_print(tree, **k2)
                obf = minify_print(tree, **kw)
            try:
                parse(obf)
                ok = True
            except Exception as e:
                ok = repr(e)
            res[name] = (plain, obf, ok)
        except Exception as e:
            res[name] = ('exc', repr(e), False)
    return ('ok', res)


def as_designed(rec):
    """the record under calmjs' own scoping design: the name of a function
    expression is declared (var-like) where the expression stands"""
    occs = []
    for sc, role, old, new in rec['occs']:
        if role == 'fname':
            sc, role = rec['scopes'][sc - 1][1], 'var'
        occs.append([sc, role, old, new])
    return dict(rec, occs=occs)


def validate(records, rep, tag):
    """-> {record id: clause} decided by spec/ScopeTrace.tla"""
    from common import validate_trace
    tlines = validate_trace('ScopeTrace', records, 'c07' + tag, rep,
                            chunk=8000)
    out = {}
    for line in tlines:
        rid, clause = json.loads(line)
        out[rid] = clause
    if len(out) != len(records):
        raise RuntimeError('ScopeTrace: %d verdicts for %d records'
                           % (len(out), len(records)))
    return out


def words(text):
    """identifier-shaped words outside string literals (the rendered
    programs have no strings / regexes / comments)"""
    return [(m.start(), m.group()) for m in WORD.finditer(text)]


def main(tier, seed, replay=None):
    rep = Report('C07', 'model_checking', tier, seed)
    rep.assumptions = [
        'programs use no with / eval / labels; rendered text holds no '
        'strings, regexes or comments, so identifier occurrences are the '
        'word tokens that are not keywords or the property after "this."',
        'scope tree and occurrence roles come from the generator product; '
        'what an occurrence denotes is decided by ScopeTrace.tla']
    build_scratch()
    from calmjs.parse.lexers.es5 import Lexer
    reserved = sorted(Lexer.keywords_dict) + ['get', 'set']
    programs = []
    gen_names = 'abcdefghijklmnopqrstuvwxyzABCDEFGHIJKLMNOPQRSTUVWXYZ_'

    def model(names):
        return ('---- MODULE MC_scope ----\nEXTENDS ObfuscatorImpl\n'
                'NameOrderDef == <<%s>>\nGenNamesDef == <<%s>>\n====\n' % (
                    ', '.join(json.dumps(n) for n in sorted(names)),
                    ', '.join(json.dumps(c) for c in gen_names)))

    def config(names, items, depth, params):
        return ('SPECIFICATION Spec\nCONSTANTS\n Names = {%s}\n'
                ' MaxItems = %d\n MaxDepth = %d\n MaxParams = %d\n'
                ' NameOrder <- NameOrderDef\n GenNames <- GenNamesDef\n'
                'INVARIANT Aligned\nINVARIANT CaptureFree\n'
                'INVARIANT EmitModel\n' % (
                    ', '.join(json.dumps(n) for n in names), items, depth,
                    params))
    items = 3 if tier == 'quick' else 4
    small = ['a', 'b', 'x']
    r = run_tlc('MC_scope', cfg='MC_scope.cfg',
                cfg_text=config(small, items, 2, 1),
                modules={'MC_scope': model(small)}, workers=8, heap='6g',
                must_succeed=False)
    rep.add_tlc(r)
    big = ['a', 'b', 'c', 'x', 'y']
    r2 = run_tlc('MC_scope', cfg='MC_scope.cfg',
                 cfg_text=config(big, 9, 3, 2),
                 modules={'MC_scope': model(big)}, workers=1, heap='4g',
                 simulate=3000 if tier == 'quick' else 15000, depth=200,
                 seed=seed + 23, must_succeed=False)
    rep.add_tlc(r2)
    for r0 in (r, r2):
        if r0.violated:
            rep.violation('C07 model invariant=%s' % r0.violated,
                          'spec/ObfuscatorImpl.tla (the modelled obfuscator) '
                          'violates %s: %s' % (r0.violated, r0.raw[-1500:]),
                          {'tlc': r0.cmd})
    seen = set()
    for line in sorted(set(r.lines)) + sorted(set(r2.lines)):
        d = json.loads(line)
        key = json.dumps(d['toks'])
        if key in seen:
            continue
        seen.add(key)
        programs.append(d)
    rep.notes['exhaustive_programs'] = len(set(r.lines))
    rep.notes['simulated_programs'] = len(programs) - len(set(r.lines))
    rendered = []
    models = []
    for j, d in enumerate(programs):
        scopes = [list(x) for x in d['sc']]
        occs = [list(x) for x in d['oc']]
        # programs without any nested scope only show that top-level names
        # stay: keep a tenth of them
        if len(scopes) > 1 or j % 10 == 0:
            rendered.append((render_text(d['toks']), scopes, occs))
            models.append(d['names'])
    for k in (53, 54, 60, 600):
        for nested in (False, True):
            rendered.append(wide_program(k, nested))
            models.append(None)
    rep.mark('generated')
    names = [c[0] for c in CONFIGS]
    chosen = []
    for j, (t, _, occs) in enumerate(rendered):
        if tier == 'quick' and len(occs) < 200 and len(occs) <= 5:
            # (the short, exhaustively enumerated programs: two rotating
            # configurations each; the deeper simulated ones get all five)
            chosen.append([names[j % 5], names[(j + 2) % 5]])
        else:
            chosen.append(names)
    res = impl.pmap(_print, [(t, c) for (t, _, _), c in
                             zip(rendered, chosen)], chunk=200)
    rep.mark('printed')
    kw = set(Lexer.keywords_dict)
    records = []
    info = {}
    distinct = set()
    MODEL_KEY = {'minify': 'ff', 'minify+globals': 'tf',
                 'minify+shadow': 'ft', 'minify+drop+globals+shadow': 'tt',
                 'indent+obfuscate': 'ff'}
    drift = 0
    compared = 0
    for (text, scopes, occs), r, mod in zip(rendered, res, models):
        if r[0] != 'ok':
            rep.violation('C07 generator text rejected', 'parse(%r): %s'
                          % (text, r[1]), {'text': text})
            continue
        for cname, _ in CONFIGS:
            if cname not in r[1]:
                continue
            plain, obf, ok = r[1][cname]
            rep.count('evaluations')
            case = {'text': text, 'cfg': cname, 'plain': plain,
                    'obfuscated': obf}
            if plain == 'exc':
                rep.violation('C07 printer-raised cfg=%s' % cname,
                              'printing %r raised %s' % (text, obf), case)
                continue
            if ok is not True:
                rep.violation('C07 output-rejected cfg=%s' % cname,
                              'obfuscated output %r of %r does not parse: %s'
                              % (obf, text, ok), case)
                continue
            # outputs may differ in identifier tokens only
            wa, wb = words(plain), words(obf)
            skel_a = WORD.sub('@', plain)
            skel_b = WORD.sub('@', obf)
            ida = [(p, w) for p, w in wa]
            if skel_a != skel_b or len(wa) != len(wb):
                rep.violation('C07 differs-beyond-identifiers cfg=%s' % cname,
                              'obfuscated output %r differs from %r in more '
                              'than identifier spellings' % (obf, plain), case)
                continue
            # identifier occurrences: words that are not keywords; property
            # names are the words right after "this."
            pairs = []
            for (pa, a), (pb, b) in zip(wa, wb):
                if a in kw and a == b and not plain[:pa].endswith('.'):
                    continue
                pairs.append((a, b))
            if len(pairs) != len(occs) or any(
                    a != o[2] for (a, b), o in zip(pairs, occs)):
                rep.violation('C07 occurrence-alignment cfg=%s' % cname,
                              'identifier occurrences of %r do not line up '
                              'with the generator product' % plain, case)
                continue
            # spec -> code conformance: the names the modelled obfuscator
            # assigns (a difference is drift of the model, reported; the
            # verdict on the real renaming is ScopeTrace's)
            if mod is not None:
                compared += 1
                if [b for a, b in pairs] != mod[MODEL_KEY[cname]]:
                    drift += 1
                    if drift <= 3:
                        rep.notes.setdefault('drift_examples', []).append(
                            {'text': text, 'cfg': cname,
                             'model': mod[MODEL_KEY[cname]],
                             'code': [b for a, b in pairs]})
            rid = len(records)
            records.append({
                'id': rid, 'scopes': scopes,
                'occs': [[o[0], o[1], o[2], b]
                         for o, (a, b) in zip(occs, pairs)],
                'globals': 'globals' in cname, 'reserved': reserved})
            info[rid] = case
            if len(scopes) > 1:
                distinct.add((text, cname))
    rep.notes['drift_model_vs_code'] = drift
    rep.notes['compared_with_model'] = compared
    verdicts = validate(records, rep, 'scope')
    rep.mark('validated')
    # attribution of failures to the one named design deviation (known
    # finding): calmjs binds the name of a function EXPRESSION in the
    # enclosing scope instead of a scope of its own.  The failing records
    # are judged once more by the same specification with that occurrence
    # turned into a declaration of the enclosing scope; only a record that
    # is a correct renaming of THAT program carries the cause.
    failing = [rec for rec in records if verdicts[rec['id']] != 'ok']
    alt = {}
    if failing:
        alt = validate([as_designed(rec) for rec in failing], rep, 'alt')
    for rec in records:
        rid = rec['id']
        clause = verdicts[rid]
        rep.count('traces_validated_against_impl')
        if clause == 'ok':
            continue
        case = info[rid]
        kinds = sorted({s[0] for s in rec['scopes']})
        if alt.get(rid) == 'ok':
            sig = ('C07 %s cause=function-expression-name-bound-in-'
                   'enclosing-scope' % clause.replace(' ', '-').replace(
                       '/', ''))
        else:
            sig = 'C07 %s scopes=%s cfg=%s' % (
                clause.replace(' ', '-').replace('/', ''), '+'.join(kinds),
                case['cfg'])
        rep.violation(sig, '%s: %r obfuscated to %r' % (
            clause, case['plain'], case['obfuscated']),
            dict(case, scopes=rec['scopes'], occurrences=rec['occs']))
    rep.cov['distinct_nontrivial'] = len(distinct)
    mid = records[len(records) // 2]
    rep.sample({'program': info[mid['id']]['text'],
                'obfuscated': info[mid['id']]['obfuscated'],
                'occurrences': mid['occs']})
    return rep.finish(RULE)
