# -*- coding: utf-8 -*-
"""
C06 - the token stream is a faithful, gap-free, correctly located
segmentation of the text.

code -> spec: token streams recorded from Lexer(yield_comments=True) for
(a) every string up to length k over a lexical character alphabet and
(b) concretised programs of the ES5Grammar themes with heavy layout
are validated by spec/LexTrace.tla (LineCol counting, gaps, extents).
"""
import itertools
import json
import os
import random
import unicodedata

import gen
import impl
from common import Report, build_scratch, run_tlc, tmp_dir
from concretise import concretise, layout_variant

RULE = ('(a) all strings of length <= k over the character alphabet that lex '
        'without error, (b) programs derived by TLC (themes + simulate) '
        'concretised with rich spellings and random layout incl. comments, '
        'CR/CRLF/LS/PS, multi-line strings.  Every stream is one trace for '
        'LexTrace.tla.  Non-trivial = at least two tokens; distinct by text.')

# representative characters (DESIGN 3.1)
ALPHA_QUICK = ['a', 'e', 'x', '1', '0', '.', "'", '\\', '/', '*', '+', '=',
               '<', ' ', '\n', '\r', '\u2028', '\t', 'é', '$', ';', '!',
               '&', '>', '-', '\x0b', '\x1c']
ALPHA_SMALL = ['a', '1', '.', "'", '\\', '/', '*', '+', '=', ' ', '\n', '\r',
               '\u2029', '<', '"', '-', '\x0c', '\x85', '\x1d']

PUNCT = ['.', ',', ';', ':', '+', '-', '*', '/', '%', '&', '|', '^', '~', '?',
         '!', '(', ')', '{', '}', '[', ']', '=', '==', '!=', '===', '!==',
         '<', '>', '<=', '>=', '||', '&&', '++', '--', '<<', '>>', '>>>',
         '+=', '-=', '*=', '/=', '<<=', '>>=', '>>>=', '&=', '%=', '^=', '|=']
PUNCT_TYPES = None

WS_CHARS = set('\t\x0b\x0c \xa0\ufeff')


def code(ch):
    if ch == '\n':
        return 1
    if ch == '\r':
        return 2
    if ch == '\u2028':
        return 3
    if ch == '\u2029':
        return 4
    if ch in WS_CHARS or unicodedata.category(ch) == 'Zs':
        return 5
    return 0


def _lex(text):
    from calmjs.parse.lexers.es5 import Lexer
    from calmjs.parse.exceptions import ECMASyntaxError
    lx = Lexer(yield_comments=True)
    kw = Lexer.keywords_dict
    try:
        lx.input(text)
        toks = list(lx)
    except ECMASyntaxError:
        return None
    except Exception:
        return None            # wrong exception types are C12's business
    out = []
    for t in toks:
        if t.type == 'AUTOSEMI':
            # a semicolon supplied by automatic insertion has no text of its
            # own; it is not a token *of the text* and is not judged here
            continue
        v = t.value
        start = t.lexpos
        text_ok = isinstance(v, str) and text[start:start + len(v)] == v
        munch_ok = True
        if v in PUNCT:
            rest = text[start:start + 4]
            for p in PUNCT:
                if len(p) > len(v) and rest.startswith(p):
                    munch_ok = False
            if v == '.' and text[start + 1:start + 2].isdigit():
                munch_ok = False
        if (t.type == 'ID' or t.type in Lexer.keywords or
                t.type in ('GETPROP', 'SETPROP')) and isinstance(v, str):
            # longest match for words too (7.6): the character after an
            # IdentifierName is not an identifier part
            nxt = text[start + len(v):start + len(v) + 1]
            if nxt and is_identifier_part(nxt):
                munch_ok = False
        if t.type in ('GETPROP', 'SETPROP'):
            kw_ok = v == t.type[:3].lower()
        elif t.type in Lexer.keywords:
            kw_ok = kw.get(v) == t.type
        elif t.type == 'ID':
            kw_ok = v not in kw
        else:
            kw_ok = True
        out.append([start, len(v) if isinstance(v, str) else 0,
                    t.lineno, getattr(t, 'colno', -1),
                    text_ok, munch_ok, kw_ok, t.type])
    return out


def is_identifier_part(ch):
    """IdentifierPart of section 7.6 (escape sequences aside)"""
    import unicodedata
    return (ch in '$_\u200c\u200d' or unicodedata.category(ch) in (
        'Lu', 'Ll', 'Lt', 'Lm', 'Lo', 'Nl', 'Mn', 'Mc', 'Nd', 'Pc'))


def explained_by_gap_lsps(text, toks):
    """
    Named deviation (Layer 2): U+2028 / U+2029 BETWEEN tokens are swallowed
    as white space and do not start a new line.  True iff every recorded
    position is what LineCol counting gives when exactly those characters
    are not counted - so that nothing else can hide behind this finding.
    """
    inside = [False] * len(text)
    for t in toks:
        for j in range(t[0], min(len(text), t[0] + t[1])):
            inside[j] = True
    if not any(c in '\u2028\u2029' and not inside[j]
               for j, c in enumerate(text)):
        return False
    line, start = 1, 0
    pos = {}
    j = 0
    while j <= len(text):
        pos[j] = (line, j - start + 1)
        if j == len(text):
            break
        c = text[j]
        if c == '\r' and text[j + 1:j + 2] == '\n':
            pos[j + 1] = (line, j + 1 - start + 1)
            j += 2
            line += 1
            start = j
            continue
        if c in '\n\r' or (c in '\u2028\u2029' and inside[j]):
            j += 1
            line += 1
            start = j
            continue
        j += 1
    return all(pos.get(t[0]) == (t[2], t[3]) for t in toks)


def main(tier, seed, replay=None):
    rep = Report('C06', 'model_checking', tier, seed)
    rep.assumptions = [
        'substring equality, longest-punctuator and keyword-spelling facts '
        'are computed by the harness and asserted by LexTrace.tla',
        'character classes: one or two representative code points per class']
    build_scratch()
    rng = random.Random(seed)
    texts = []
    if replay:
        texts = [replay['case']['text']]
    else:
        k = 3 if tier == 'quick' else 4
        for n in range(1, k + 1):
            for cs in itertools.product(ALPHA_QUICK, repeat=n):
                texts.append(''.join(cs))
        for cs in itertools.product(ALPHA_SMALL, repeat=k + 1):
            texts.append(''.join(cs))
        rep.notes['short_strings'] = len(texts)
        themes = gen.run_themes(['lit', 'slash', 'stmt', 'asi'], tier, rep,
                                jobs=8)
        r, deep = gen.simulate(2000 if tier == 'quick' else 10000,
                               maxtok=30, maxnl=2, seed=seed + 3, workers=8)
        rep.add_tlc(r)
        prog = deep + [s for n in themes for s in themes[n]
                       if hash(s.key()) % (6 if tier == 'quick' else 3) == 0]
        for s in prog:
            texts.append(concretise(s, seed=rng.randrange(1000), pools='rich',
                                    gaps=layout_variant(s, rng)))
        rep.notes['programs'] = len(prog)
        # the texts the repository's own tests lex (DESIGN 4.5)
        texts += gen.suite_corpus(rep)
    rep.mark('generated')
    res = impl.pmap(_lex, texts, chunk=2000)
    rep.mark('lexed')
    kept = []
    trecs = []
    for i, (text, toks) in enumerate(zip(texts, res)):
        if toks is None or isinstance(toks, tuple):
            continue
        trecs.append({'id': i, 'cls': [code(c) for c in text],
                      'toks': [t[:7] for t in toks]})
        kept.append(i)
    from common import validate_trace
    tlines = validate_trace('LexTrace', trecs, 'c06', rep, chunk=8000)
    rep.mark('validated')
    verdicts = {}
    for line in tlines:
        i, why, k, off = json.loads(line)
        verdicts[i] = (why, k, off)
    if len(verdicts) != len(kept):
        raise RuntimeError('LexTrace returned %d verdicts for %d records'
                           % (len(verdicts), len(kept)))
    distinct = 0
    for i in kept:
        text, toks = texts[i], res[i]
        why, k, off = verdicts[i]
        rep.count('evaluations')
        rep.count('traces_validated_against_impl')
        if len(toks) >= 2:
            distinct += 1
        if why == 'ok':
            continue
        # where did it go wrong: last line terminator before the token
        tk = toks[k - 1] if 0 < k <= len(toks) else None
        upto = tk[0] if tk else off
        sig_lt = 'none'
        for j in range(upto - 1, -1, -1):
            c = code(text[j])
            if c in (1, 2, 3, 4):
                kind = {1: 'LF', 2: 'CR', 3: 'LS', 4: 'PS'}[c]
                if c == 1 and j and text[j - 1] == '\r':
                    kind = 'CRLF'
                inside = 'gap'
                for t in toks:
                    if t[0] <= j < t[0] + t[1]:
                        inside = t[7]
                sig_lt = '%s in=%s' % (kind, inside)
                break
        sig = 'C06 %s lt=%s' % (why.replace(' ', '-').replace('/', '-'),
                                sig_lt)
        if 'line' in why and explained_by_gap_lsps(text, toks):
            sig = 'C06 linecol lt=LS|PS in=gap not-counted'
        if 'line' not in why:
            sig = 'C06 %s tok=%s' % (why.replace(' ', '-'),
                                     tk[7] if tk else '-')
        rep.violation(sig, 'LexTrace.tla rejects the token stream of %r at '
                      'token %d (offset %d): %s' % (text, k, off, why),
                      {'text': text, 'tokens': toks, 'failing_token': k})
    rep.cov['distinct_nontrivial'] = distinct
    for i in kept[len(kept) // 2: len(kept) // 2 + 2] + kept[-2:]:
        rep.sample({'text': texts[i], 'tokens': [t[:4] + [t[7]]
                                                 for t in res[i]][:12]})
    return rep.finish(RULE)
