# -*- coding: utf-8 -*-
"""Membership / longest viable prefix of token strings, decided by TLC on
spec/ES5Accept.tla (the ES5Grammar machine run as a recogniser)."""
import json

from common import run_tlc, tla_seq
from sentence import Sentence

ALL_CLASSES = None


def recognise(inputs, slack=0, sigma=None, workers=1, rep=None, batch=400):
    """
    inputs: list of (classes, nl_indices[1-based]) ;
    -> list of dict(accepted, sentence|None, viable)
    """
    from concurrent.futures import ThreadPoolExecutor
    batch = max(10, min(batch, (len(inputs) + 7) // 8))
    chunks = [inputs[b:b + batch] for b in range(0, len(inputs), batch)]
    res = []
    with ThreadPoolExecutor(max_workers=8) as ex:
        for part in ex.map(lambda c: _recognise(c, slack, sigma, rep),
                           chunks):
            res.extend(part)
    return res


def _recognise(inputs, slack, sigma, rep):
    if sigma is None:
        sigma = sorted({c for cls, _ in inputs for c in cls} | {';'})
    mc = ('---- MODULE MC_Accept ----\nEXTENDS ES5Accept\n'
          'SigmaDef == {%s}\nInputsDef == %s\n====\n' % (
              ', '.join(json.dumps(s) for s in sigma),
              tla_seq([[list(c), list(n)] for c, n in inputs])))
    cfg = ('SPECIFICATION ASpec\nCONSTANTS\n Sigma <- SigmaDef\n MaxTok = 999\n'
           ' MaxNL = 999\n Start = "Program"\n Relax = {}\n Inputs <- InputsDef\n'
           ' Slack = %d\nCONSTRAINT Track\nINVARIANT EmitAccepted\n'
           'POSTCONDITION Report\n' % slack)
    r = run_tlc('MC_Accept', cfg='MC_Accept.cfg', cfg_text=cfg,
                modules={'MC_Accept': mc}, workers=1, heap='4g')
    if rep is not None:
        rep.add_tlc(r)
    out = [dict(accepted=False, sentence=None, viable=0) for _ in inputs]
    for line in r.lines:
        row = json.loads(line)
        if row[0] == 'acc':
            i = row[1] - 1
            out[i]['accepted'] = True
            out[i]['sentence'] = Sentence(row[2], inputs[i][1])
        elif row[0] == 'viable':
            for i, v in enumerate(row[1]):
                out[i]['viable'] = v
    return out
