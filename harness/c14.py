# -*- coding: utf-8 -*-
"""
C14 - unparsing is pure: the tree is unchanged, printers are reusable, the
shortcuts agree with the explicit calls.

spec -> code: TLC enumerates every history of at most MaxLen operations
(start / step / finish / abandon / raise, up to two generators of the same
or of different printer objects alive at once) from spec/PureCalls.tla;
each history is performed on real printer objects and real trees.
code -> spec: after every operation the harness records digests of what a
finished call returned, of all trees (with positions and token maps) and of
the shared objects; spec/PureTrace.tla validates each recorded history:
every finished call returns what a fresh printer returns, nothing else
changes.
"""
import hashlib
import json
import os

import project
from common import Report, build_scratch, run_tlc, tmp_dir

RULE = ('every history of MaxLen operations over 6 calls (2 printer objects '
        'x 3 trees, rotating through 5 printer configurations) with up to 2 '
        'generators alive, ending in a finished call; one PureTrace record '
        'per history.  Non-trivial = the history has an abandoned, raised or '
        'interleaved call before the last finish; distinct by history.')

PROGRAMS = [
    'function f(a, b) {\n  var c = function g(d) { return a + d; };\n'
    '  try { c(b); } catch (e) { var h = e; }\n  return [c, , h];\n}\n',
    'var x = {get p() { return 1; }, q: [1,, 2]};\nfor (var i in x) {\n'
    '  switch (i) {\n    case "p":\n      x[i]++;\n    default:\n  }\n}\n',
    # the last one also has a scope wide enough for generated names of two
    # letters and for the reserved words do / if / in to come up
    'a = 1;\nif (a) {\n  b: while (a) { break b; }\n}\nelse c = "s\\\nt";\n'
    '(function() {\n  var ' + ', '.join('v%d' % i for i in range(232)) +
    ' = 1;\n  return v231;\n})();\n',
]


def digest(obj):
    return hashlib.sha1(repr(obj).encode('utf-8', 'backslashreplace')
                        ).hexdigest()[:16]


def tree_snapshot(tree):
    """projection with positions and token maps (reflection only)"""
    from calmjs.parse.asttypes import Node
    out = []

    def walk(n):
        d = vars(n)
        out.append((type(n).__name__, n.lexpos, n.lineno, n.colno,
                    sorted((k, repr(v)) for k, v in
                           (getattr(n, '_token_map', None) or {}).items()),
                    sorted((k, repr(v)) for k, v in d.items()
                           if not isinstance(v, (Node, list))
                           and k != '_token_map')))
        for k, v in sorted(d.items()):
            if isinstance(v, Node):
                walk(v)
            elif isinstance(v, list):
                for i in v:
                    if isinstance(i, Node):
                        walk(i)
    walk(tree)
    return out


def shared_snapshot(printers):
    from calmjs.parse import ruletypes
    from calmjs.parse.unparsers import es5 as ues5
    from calmjs.parse.lexers.es5 import Lexer
    sep = ruletypes.ElisionJoinAttr.sep
    snap = [sorted((k, repr(v)) for k, v in vars(sep).items()),
            sorted(ues5.definitions), len(repr(ues5.definitions)) > 0,
            sorted(Lexer.keywords_dict.items())]
    for p in printers:
        snap.append(sorted(p.definitions))
        for rule in p.rules:
            r = rule()
            snap.append(sorted((str(k), getattr(v, '__name__', str(type(v))))
                               for k, v in
                               r.get('layout_handlers', {}).items()))
    return snap


def make_printers():
    from calmjs.parse.unparsers.es5 import (pretty_printer, minify_printer,
                                            Unparser)
    from calmjs.parse import rules
    return [
        ('pretty', lambda: pretty_printer('  ')),
        ('minify', lambda: minify_printer()),
        ('minify+drop', lambda: minify_printer(drop_semi=True)),
        ('obfuscate', lambda: minify_printer(obfuscate=True,
                                             obfuscate_globals=True)),
        ('obfuscate+indent', lambda: Unparser(rules=(
            rules.obfuscate(), rules.indent(indent_str='\t')))),
    ]


def bad_tree(text):
    """a tree that makes every printer raise midway: a node kind without a
    definition at the deepest last position of the tree (inside the scopes
    and blocks that enclose it, so that the call is given up with all of
    them entered)"""
    from calmjs.parse.parsers.es5 import parse
    from calmjs.parse import asttypes
    tree = parse(text)
    parent, node = None, tree
    while True:
        kids = [k for k in node.children() if isinstance(k, asttypes.Node)]
        if not kids:
            break
        parent, node = node, kids[-1]
    for k, v in vars(parent).items():
        if v is node:
            setattr(parent, k, asttypes.Node())
            break
        if isinstance(v, list) and any(x is node for x in v):
            v[[x is node for x in v].index(True)] = asttypes.Node()
            break
    else:
        raise RuntimeError('bad_tree: %r not found in its parent' % (node,))
    return tree


_CTX = None


def _unit(unit):
    """perform the histories of one unit on its own pair of printer objects
    -> PureTrace records"""
    pi, qi, hists = unit
    factories, trees, bads, ref = _CTX
    printers = [factories[pi][1](), factories[qi][1]()]
    callmap = {c: ((0, pi) if c <= 3 else (1, qi), (c - 1) % 3)
               for c in range(1, 7)}
    args0 = digest([tree_snapshot(t) for t in trees])
    shared0 = digest(shared_snapshot(printers))
    out = []
    for h in hists:
        live = []        # [call id, generator, chunks]
        events = []
        for op, x in h:
            result = 0
            cid = 0
            if op == 'start':
                (slot, p), ti = callmap[x]
                live.append([x, None, [], slot, ti])
                cid = x
            else:
                ent = live[x - 1]
                cid = ent[0]
                if ent[1] is None:
                    # the generator is created at its first use
                    tree = (bads if op == 'raise' else trees)[ent[4]]
                    ent[1] = printers[ent[3]](tree)
                try:
                    if op in ('step', 'abandon'):
                        # an abandoned call has been consumed partly
                        for _ in range(17):
                            c = next(ent[1], None)
                            if c is None:
                                break
                            ent[2].append(tuple(c))
                    elif op == 'finish':
                        for c in ent[1]:
                            ent[2].append(tuple(c))
                        result = digest(ent[2])
                    elif op == 'raise':
                        try:
                            for c in ent[1]:
                                pass
                        except Exception:
                            pass
                except Exception as e:
                    result = digest(('EXC', repr(e)))
                if op in ('finish', 'abandon', 'raise'):
                    live.pop(x - 1)
            events.append([op, cid, result,
                           digest([tree_snapshot(t) for t in trees]),
                           digest(shared_snapshot(printers))])
        refs = [ref[(callmap[c][0][1], callmap[c][1])] for c in range(1, 7)]
        out.append({'events': events, 'ref': refs, 'args0': args0,
                    'shared0': shared0})
    return out


def main(tier, seed, replay=None):
    rep = Report('C14', 'model_checking', tier, seed)
    rep.assumptions = [
        'the reference result of a call is what a fresh printer object of '
        'the same configuration yields before any history was performed',
        'digests (sha1 of a reflection-based snapshot) stand for equality']
    build_scratch()
    from calmjs.parse.parsers.es5 import parse
    from calmjs.parse import es5 as es5api
    from calmjs.parse.unparsers.es5 import pretty_print, minify_print
    factories = make_printers()
    trees = [parse(t) for t in PROGRAMS]
    bads = [bad_tree(t) for t in PROGRAMS]
    # ---- shortcuts ------------------------------------------------------
    for t, text in zip(trees, PROGRAMS):
        rep.count('evaluations')
        if str(t) != pretty_print(t):
            rep.violation('C14 shortcut kind=str', 'str(node) differs from '
                          'pretty_print(node) for %r' % text, {'text': text})
        for name, f, kw in (('pretty_print', pretty_print, {}),
                            ('pretty_print', pretty_print,
                             {'indent_str': '\t'}),
                            ('minify_print', minify_print, {}),
                            ('minify_print', minify_print,
                             {'obfuscate': True, 'drop_semi': True})):
            a = getattr(es5api, name)(text, **kw)
            b = f(parse(text), **kw)
            if a != b:
                rep.violation('C14 shortcut kind=es5.%s' % name,
                              'es5.%s(text, %r) differs from %s(parse(text))'
                              % (name, kw, name), {'text': text, 'kw': kw})
    # ---- reference results (fresh printer per call) ----------------------
    ref = {}
    for pi, (pname, fac) in enumerate(factories):
        for ti, t in enumerate(trees):
            ref[(pi, ti)] = digest([tuple(c) for c in fac()(t)])
    maxlen = 4 if tier == 'quick' else 6
    cfg = ('SPECIFICATION Spec\nCONSTANTS\n Calls = {1,2,3,4,5,6}\n MaxLen = %d\n'
           ' MaxLive = 2\n Kinds = {"finish", "abandon", "raise"}\n'
           'INVARIANT Emit\n' % maxlen)
    r = run_tlc('PureCalls', cfg='PureCalls.cfg', cfg_text=cfg,
                modules={'Dummy_': '---- MODULE Dummy_ ----\n====\n'},
                workers=4)
    rep.add_tlc(r)
    hists = [json.loads(l) for l in r.lines]
    if tier != 'quick':
        for ml in (4, 5):
            r2 = run_tlc('PureCalls', cfg='PureCalls.cfg',
                         cfg_text=cfg.replace('MaxLen = %d' % maxlen,
                                              'MaxLen = %d' % ml),
                         modules={'Dummy_': '---- MODULE Dummy_ ----\n====\n'},
                         workers=4)
            rep.add_tlc(r2)
            hists += [json.loads(l) for l in r2.lines]
    rep.notes['histories'] = len(hists)
    records = []
    info = {}
    nontrivial = set()
    # one unit = one family (pair of printer objects, reused over all the
    # histories of the unit) x one slice of the histories
    nslices = 1 if tier == 'quick' else 3
    units = []
    for pi in range(len(factories)):
        qi = (pi + 1 + seed) % len(factories)
        if qi == pi:
            qi = (pi + 1) % len(factories)
        for k in range(nslices):
            units.append((pi, qi, hists[k::nslices]))
    global _CTX
    _CTX = (factories, trees, bads, ref)
    import impl
    for (pi, qi, hs), recs in zip(units, impl.pmap(_unit, units, chunk=1,
                                                   seconds=None)):
        for h, rec in zip(hs, recs):
            rid = len(records)
            rec['id'] = rid
            records.append(rec)
            info[rid] = (factories[pi][0], factories[qi][0], h)
            rep.count('evaluations')
            if any(op in ('abandon', 'raise', 'step') for op, _ in h[:-1]):
                nontrivial.add((pi, json.dumps(h)))
    # digests -> small integers for TLC
    table = {}

    def idx(d):
        if d == 0:
            return 0
        return table.setdefault(d, len(table) + 1)
    tf = os.path.join(tmp_dir('c14'), 'pure.ndjson')
    with open(tf, 'w') as f:
        for rec in records:
            f.write(json.dumps({
                'id': rec['id'],
                'events': [[e[0], e[1], idx(e[2]), idx(e[3]), idx(e[4])]
                           for e in rec['events']],
                'ref': [idx(x) for x in rec['ref']],
                'args0': idx(rec['args0']), 'shared0': idx(rec['shared0'])})
                + '\n')
    tr = run_tlc('PureTrace', cfg='PureTrace.cfg',
                 cfg_text='SPECIFICATION Spec\nINVARIANT Verdict\n',
                 modules={'Dummy_': '---- MODULE Dummy_ ----\n====\n'},
                 workers=8, env={'TRACE_FILE': tf})
    rep.add_tlc(tr)
    n = 0
    for line in tr.lines:
        rid, why, k = json.loads(line)
        n += 1
        rep.count('traces_validated_against_impl')
        if why == 'ok':
            continue
        p, q, h = info[rid]
        before = [op for op, _ in h[:k - 1]]
        sig = 'C14 impure kind=%s after=%s cfg=%s' % (
            why.split()[0], '+'.join(sorted(set(before) - {'start'})) or
            'nothing', p)
        rep.violation(sig, 'history %s on printers (%s, %s): %s at event %d'
                      % (h, p, q, why, k),
                      {'history': h, 'printers': [p, q], 'event': k})
    if n != len(records):
        raise RuntimeError('PureTrace: %d verdicts for %d records'
                           % (n, len(records)))
    rep.cov['distinct_nontrivial'] = len(nontrivial)
    rep.sample({'history': info[len(records) // 2][2],
                'printers': info[len(records) // 2][:2]})
    return rep.finish(RULE, exhaustive=True)
