# -*- coding: utf-8 -*-
"""
C09 - the source map decodes to exactly the positions the fragments carried.

(a) every sequence up to length n over 16 kinds of fragments (synthetic
well-formed streams) x {normalize on, off} x {first source given or not},
(b) the fragment streams the real printers produce for TLC-derived programs
(one and two source files)
are fed to sourcemap.write; the returned mappings, together with the
generated position at which each explicitly positioned fragment was written
(computed here from the text alone), are validated by spec/MapTrace.tla,
which decodes them with spec/SourceMapV3.tla.  The VLQ string of
encode_sourcemap is decoded back with the codec spec of C10 in the harness
and must equal the raw tuples.
"""
import io
import itertools
import json
import os
import random
import re

import gen
import impl
from common import Report, build_scratch, run_tlc, tmp_dir
from concretise import concretise, layout_variant

KINDS = ['tok', 'tok_back', 'tok_nextline', 'tok_prevline', 'ren_short',
         'ren_long', 'sp_inferred', 'unmapped', 'nl_inferred', 'nl_unmapped',
         'nl_positioned', 'multi', 'empty', 'src_change', 'src_ni', 'crlf',
         'multi_cr', 'cr']

RULE = ('(a) all sequences of length <= n over 18 fragment kinds x normalize '
        'x first-source variant (+ seeded random longer ones), (b) fragment '
        'streams of the pretty / minify / obfuscating printers for '
        'TLC-derived programs, one and two sources; each write() is one '
        'MapTrace record.  Non-trivial = at least two explicitly positioned '
        'fragments; distinct by record content.')

LT = re.compile('\r\n|\n|\r')
INVALID = 'about:invalid'


def well_formed(kinds):
    """a CR LF pair split over two fragments is not a well-formed stream
    (the printers write a line terminator as one fragment)"""
    ks = [k for k in kinds if k != 'empty']
    return not any(a == 'cr' and b.startswith('nl_')
                   for a, b in zip(ks, ks[1:]))


def concretise_kinds(kinds, first_source):
    """kind sequence -> list of (text, lineno, colno, name, source)"""
    frags = []
    line, col = 3, 5
    src = 'a.js'
    NI = NotImplemented
    for i, k in enumerate(kinds):
        source = None
        if i == 0 and first_source:
            source = 'a.js'
        if k == 'tok':
            col += 4
            f = ('abc', line, col, None, source)
        elif k == 'tok_back':
            col = max(1, col - 3)
            f = ('xy', line, col, None, source)
        elif k == 'tok_nextline':
            line += 1
            col = 1
            f = ('abcd', line, col, None, source)
        elif k == 'tok_prevline':
            line = max(1, line - 1)
            col = 9
            f = ('q', line, col, None, source)
        elif k == 'ren_short':
            col += 5
            f = ('a', line, col, 'original', source)
        elif k == 'ren_long':
            col += 5
            f = ('longername', line, col, 'o', source)
        elif k == 'sp_inferred':
            f = (' ', 0, 0, None, None)
        elif k == 'unmapped':
            f = ('zz', None, None, None, None)
        elif k == 'nl_inferred':
            f = ('\n', 0, 0, None, None)
        elif k == 'nl_unmapped':
            f = ('\n', None, None, None, None)
        elif k == 'nl_positioned':
            col += 2
            f = ('\n', line, col, None, source)
        elif k == 'multi':
            col += 3
            f = ("'ab\\\ncd'", line, col, None, source)
            line += 1
            col = 1
        elif k == 'empty':
            f = ('', line, col, None, source)
        elif k == 'src_change':
            src = 'b.js' if src == 'a.js' else 'a.js'
            line, col = 2, 2
            f = ('s', line, col, None, src)
        elif k == 'src_ni':
            line, col = 7, 7
            f = ('n', line, col, None, NI)
        elif k == 'crlf':
            f = ('\r\n', 0, 0, None, None)
        elif k == 'cr':
            f = ('\r', 0, 0, None, None)
        elif k == 'multi_cr':
            col += 3
            f = ("'ab\\\rcd'", line, col, None, source)
            line += 1
            col = 1
        frags.append(f)
    return frags


def record_for(frags, normalize, rid, sourcemap):
    """run write() and build the MapTrace record"""
    from calmjs.parse.ruletypes import StreamFragment
    out = io.StringIO()
    mappings, sources, names = sourcemap.write(
        [StreamFragment(*f) for f in frags], out, normalize=normalize)
    text = out.getvalue()
    # where each fragment starts in the generated text
    probes = []
    pos = 0
    cur_source = None
    first = True
    for (t, line, col, name, source) in frags:
        start = pos
        pos += len(t)
        # what the fragment says about its source (a fragment without text
        # writes nothing and is not taken to say anything: write() skips it)
        if t == '':
            continue
        if source is NotImplemented:
            cur_source = INVALID
        elif source is not None:
            cur_source = source
        explicit = (isinstance(line, int) and isinstance(col, int)
                    and line > 0 and col > 0)
        mapped = line is not None and col is not None
        unknown_source = mapped and cur_source is None
        if not explicit or t == '':
            continue
        before = text[:start]
        gl = len(LT.findall(before)) + 1
        last = 0
        for m in LT.finditer(before):
            last = m.end()
        gc = start - last
        if unknown_source:
            si = -1      # the stream has not named any source yet
        else:
            try:
                si = sources.index(cur_source)
            except ValueError:
                si = -2
        ni = -1
        if name is not None:
            ni = names.index(name) if name in names else -2
        probes.append([gl, gc, si, line - 1, col - 1, ni])
    lts = LT.findall(text)
    rec = {'id': rid, 'mappings': [[list(s) for s in l] for l in mappings],
           'nSources': len(sources), 'nNames': len(names),
           'lineTerminators': len(lts),
           'endsWithLT': bool(text) and text[-1] in '\r\n',
           'normalize': bool(normalize), 'probes': probes}
    return rec, text, (mappings, sources, names)


def _synthetic(case):
    kinds, normalize, first_source, rid = case
    from calmjs.parse import sourcemap
    frags = concretise_kinds(kinds, first_source)
    try:
        rec, text, res = record_for(frags, normalize, rid, sourcemap)
    except Exception as e:
        return ('exc', repr(e), [repr(f) for f in frags])
    # the encoded form must decode back to the raw tuples
    enc = sourcemap.encode_sourcemap('out.js', *res)
    return ('ok', rec, enc['mappings'], [repr(f) for f in frags], text,
            [[[list(x) for x in l] for l in res[0]], list(res[1]),
             list(res[2])])


def _printer_stream(case):
    texts, cfg, normalize, with_comments, rid = case
    from calmjs.parse.parsers.es5 import parse
    from calmjs.parse.unparsers.es5 import pretty_printer, minify_printer
    from calmjs.parse import sourcemap
    try:
        trees = []
        for j, t in enumerate(texts):
            tree = parse(t, with_comments=with_comments)
            tree.sourcepath = 'src%d.js' % j
            trees.append(tree)
    except Exception as e:
        return ('noparse', repr(e))
    printer = {'pretty': pretty_printer('  '), 'minify': minify_printer(),
               'obfuscate': minify_printer(obfuscate=True,
                                           obfuscate_globals=True)}[cfg]
    frags = []
    for tree in trees:
        frags.extend(tuple(f) for f in printer(tree))
    try:
        rec, text, res = record_for(frags, normalize, rid, sourcemap)
    except Exception as e:
        return ('exc', repr(e), [repr(f) for f in frags][:30])
    enc = sourcemap.encode_sourcemap('out.js', *res)
    return ('ok', rec, enc['mappings'], [repr(f) for f in frags][:40], text)


B64 = 'ABCDEFGHIJKLMNOPQRSTUVWXYZabcdefghijklmnopqrstuvwxyz0123456789+/'


def decode_vlq_string(s):
    """reference decoder written from VLQ.tla (Decode / DecodeMappings)"""
    lines = []
    for line in s.split(';'):
        segs = []
        for seg in line.split(','):
            if not seg:
                continue
            vals = []
            cur = []
            for ch in seg:
                d = B64.index(ch)
                cur.append(d & 31)
                if d < 32:
                    raw = 0
                    for i, g in enumerate(cur):
                        raw |= g << (5 * i)
                    vals.append(-(raw >> 1) if raw & 1 else raw >> 1)
                    cur = []
            segs.append(vals)
        lines.append(segs)
    return lines


def main(tier, seed, replay=None):
    rep = Report('C09', 'model_checking', tier, seed)
    rep.assumptions = [
        'the generated position of a fragment is where its text starts in '
        'the written text (lines split at LF, CR, CRLF), computed by the '
        'harness from the text alone',
        'a fragment is explicitly positioned iff lineno and colno are both '
        'positive; None source = same as previous; first unspecified or '
        'NotImplemented source = about:invalid']
    build_scratch()
    rng = random.Random(seed)
    # (a) synthetic streams: every reachable state of spec/MapWriter.tla is
    # one stream of fragment kinds, together with the map the modelled
    # writer produces for it (TLC has checked MapMeansStream, IndicesInRange
    # and LineCount on each); longer ones from tlc -simulate (which checks
    # - and emits - every successor of every state of its random walks)
    work = []
    model = {}
    n = 3 if tier == 'quick' else 4
    cfg = ('SPECIFICATION Spec\nCONSTANTS\n MaxFrags = %%d\n Kinds = {%s}\n'
           'INVARIANT MapMeansStream\nINVARIANT IndicesInRange\n'
           'INVARIANT LineCount\nINVARIANT Emit\n'
           % ', '.join(json.dumps(k) for k in KINDS))
    dummy = {'Dummy_': '---- MODULE Dummy_ ----\n====\n'}
    mw = run_tlc('MapWriter', cfg='MapWriter.cfg', cfg_text=cfg % n,
                 modules=dummy, workers=12, heap='6g', must_succeed=False)
    rep.add_tlc(mw)
    ms = run_tlc('MapWriter', cfg='MapWriter.cfg', cfg_text=cfg % 8,
                 modules=dummy, workers=4, heap='4g', must_succeed=False,
                 simulate=25 if tier == 'quick' else 200, depth=9,
                 seed=seed + 3)
    rep.add_tlc(ms)
    for r0 in (mw, ms):
        if r0.violated:
            rep.violation('C09 model invariant=%s' % r0.violated,
                          'spec/MapWriter.tla (the modelled writer) violates '
                          '%s: %s' % (r0.violated, r0.raw[-1500:]),
                          {'tlc': r0.cmd})
    seen = set()
    for line in mw.lines + ms.lines:
        d = line if isinstance(line, dict) else json.loads(line)
        key = (tuple(d['kinds']), d['normalize'], d['firstSource'])
        if not d['kinds'] or key in seen:
            continue
        seen.add(key)
        model[len(work)] = d
        work.append((key[0], key[1], key[2], len(work)))
    rep.notes['model_streams'] = len(work)
    nsyn = len(work)
    res = impl.pmap(_synthetic, work, chunk=500)
    rep.mark('synthetic')
    # spec -> code conformance: the real write() must return what the
    # modelled writer returns (a difference is drift of the model, reported;
    # the verdict on the real map is MapTrace's below)
    drift = 0
    for case, r in zip(work, res):
        if r[0] != 'ok':
            continue
        d = model[case[-1]]
        got = (r[1]['mappings'], list(r[5][1]), list(r[5][2]))
        want = (d['mappings'], d['sources'], d['names'])
        if got != want:
            drift += 1
            if drift <= 3:
                rep.notes.setdefault('drift_examples', []).append(
                    {'kinds': d['kinds'], 'normalize': d['normalize'],
                     'firstSource': d['firstSource'], 'model': want,
                     'code': got})
    rep.notes['drift_model_vs_code'] = drift
    # (b) printer streams
    themes = gen.run_themes(['stmt', 'lit', 'ctrl', 'lhs'], tier, rep, jobs=4)
    r, deep = gen.simulate(1200 if tier == 'quick' else 8000, maxtok=30,
                           maxnl=1, seed=seed + 17, workers=8)
    rep.add_tlc(r)
    prog = deep + [s for nm in themes for s in themes[nm]
                   if hash(s.key()) % (25 if tier == 'quick' else 8) == 0]
    pwork = []
    texts = [concretise(s, seed=rng.randrange(999), pools='rich',
                        gaps=layout_variant(s, rng, 0.2)) for s in prog]
    for j, t in enumerate(texts):
        cfg = ('pretty', 'minify', 'obfuscate')[j % 3]
        srcs = [t] if j % 4 else [t, texts[(j * 7 + 1) % len(texts)]]
        pwork.append((srcs, cfg, bool(j % 2), bool(j % 5 == 0),
                      nsyn + len(pwork)))
    pres = impl.pmap(_printer_stream, pwork, chunk=100)
    rep.mark('printer-streams')
    records = []
    info = {}
    for case, r in list(zip(work, res)) + list(zip(pwork, pres)):
        rid = case[-1]
        if r[0] == 'noparse':
            continue
        rep.count('evaluations')
        if r[0] == 'exc':
            rep.violation('C09 write-raised %s' % r[1].split('(')[0],
                          'sourcemap.write raised %s on %s' % (r[1], r[2]),
                          {'case': [str(c) for c in case[:-1]],
                           'fragments': r[2]})
            continue
        rec = r[1]
        records.append(rec)
        info[rid] = (case, r[3], r[4])
        # VLQ string = raw tuples
        dec = decode_vlq_string(r[2])
        raw = [[list(s) for s in l] for l in rec['mappings']]
        if dec != raw and not (raw == [[]] and dec == [[]]):
            rep.violation('C09 encoded-differs-from-raw',
                          'encode_sourcemap(...)["mappings"] = %r decodes to '
                          '%r, raw %r' % (r[2], dec, raw),
                          {'fragments': r[3]})
    from common import validate_trace
    tlines = validate_trace('MapTrace', records, 'c09', rep, chunk=8000)
    rep.mark('validated')
    verdicts = {}
    for line in tlines:
        i, why, k = json.loads(line)
        verdicts[i] = (why, k)
    if len(verdicts) != len(records):
        raise RuntimeError('MapTrace: %d verdicts for %d records'
                           % (len(verdicts), len(records)))
    distinct = set()
    for rec in records:
        why, k = verdicts[rec['id']]
        rep.count('traces_validated_against_impl')
        if len(rec['probes']) >= 2:
            distinct.add(json.dumps([rec['mappings'], rec['probes']]))
        if why == 'ok':
            continue
        case, frags, text = info[rec['id']]
        synthetic = rec['id'] < nsyn
        if synthetic:
            kinds = case[0]
            # the fragment the failing probe belongs to and its predecessor
            ex = [i for i, kd in enumerate(kinds)
                  if kd not in ('sp_inferred', 'unmapped', 'nl_inferred',
                                'nl_unmapped', 'empty', 'crlf', 'cr')]
            if 1 <= k <= len(ex):
                i = ex[k - 1]
                ctx = 'frag=%s prev=%s' % (kinds[i],
                                           kinds[i - 1] if i else 'START')
            else:
                ctx = 'kinds=%s' % '+'.join(sorted(set(kinds)))
            sig = 'C09 lookup clause=%s %s normalize=%s' % (
                why.replace(' ', '-'), ctx, case[1])
        else:
            sig = 'C09 lookup clause=%s printer=%s normalize=%s sources=%d' % (
                why.replace(' ', '-'), case[1], case[2], len(case[0]))
        rep.violation(sig, 'MapTrace.tla rejects the map of %r (probe %d): %s'
                      % (text[:200], k, why),
                      {'fragments': frags, 'text': text,
                       'mappings': rec['mappings'], 'probes': rec['probes'],
                       'normalize': rec['normalize']})
    rep.cov['distinct_nontrivial'] = len(distinct)
    if records:
        r0 = records[nsyn // 2 if nsyn // 2 < len(records) else 0]
        rep.sample({'fragments': info[r0['id']][1],
                    'mappings': r0['mappings'], 'probes': r0['probes']})
        r1 = records[-1]
        rep.sample({'printer_stream_text': info[r1['id']][2][:200],
                    'mappings': r1['mappings'][:3]})
    return rep.finish(RULE)
