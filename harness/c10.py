# -*- coding: utf-8 -*-
"""
C10 - base64-VLQ codec is a canonical bijection.

TLC explores spec/VLQ.tla (format = Layer 1, loops of vlq.py = Layer 2, all
round-trip invariants) and prints the table (value, digits); the table is
replayed into the real calmjs.parse.vlq (spec -> code).  Records taken from
the real codec on large random values are validated by spec/VLQTrace.tla
(code -> spec).
"""
import json
import os
import random

from common import (Report, run_tlc, build_scratch, tla_seq, tmp_dir)

B64 = 'ABCDEFGHIJKLMNOPQRSTUVWXYZabcdefghijklmnopqrstuvwxyz0123456789+/'

POOL = [0, 1, -1, 15, -16, 16, 1024, -32768, 2 ** 31, -(2 ** 40) + 7]


def to_limbs(n):
    neg = n < 0
    n = abs(n)
    limbs = []
    while n:
        limbs.append(n & 31)
        n >>= 5
    return [neg, limbs]


def from_limbs(v):
    neg, limbs = v
    n = 0
    for i, l in enumerate(limbs):
        n |= l << (5 * i)
    return -n if neg else n


def digits_to_str(ds):
    return ''.join(';' if d == 64 else ',' if d == 65 else B64[d] for d in ds)


def str_to_digits(s):
    return [64 if c == ';' else 65 if c == ',' else B64.index(c) for c in s]


def model(tier):
    maxlimbs = 2 if tier == 'quick' else 3
    maxk = 16 if tier == 'quick' else 64
    pool = tla_seq([to_limbs(v) for v in POOL])
    mc = ('---- MODULE MC_VLQ ----\nEXTENDS VLQ\nPoolDef == %s\n====\n' % pool)
    cfg = '''SPECIFICATION Spec
CONSTANTS
 MaxLimbs = %d
 MaxK = %d
 Pool <- PoolDef
 MaxLines = %d
INVARIANT TypeOK
INVARIANT EncoderMatchesFormat
INVARIANT DecoderInverts
INVARIANT RoundTripValue
INVARIANT RoundTripList
INVARIANT RoundTripMap
INVARIANT Emit
''' % (maxlimbs, maxk, 2 if tier == 'quick' else 3)
    return mc, cfg


def run(rep, replay=None):
    build_scratch()
    from calmjs.parse import vlq

    def sig(kind, clause):
        return 'C10 codec kind=%s clause=%s' % (kind, clause)

    def check_val(v, digits, origin):
        n = from_limbs(v)
        s = digits_to_str(digits)
        rep.count('evaluations')
        try:
            got = vlq.encode_vlq(n)
        except Exception as e:
            got = 'EXC %r' % (e,)
        if got != s:
            rep.violation(sig('value', 'encode'),
                          'encode_vlq(%d) = %r, format dictates %r' % (
                              n, got, s),
                          {'value': n, 'expected': s, 'got': got,
                           'origin': origin})
            return
        try:
            d1 = vlq.decode_vlq(s)
            d2 = vlq.decode_vlqs(s)
        except Exception as e:
            d1 = d2 = 'EXC %r' % (e,)
        if d1 != n or d2 != (n,):
            rep.violation(sig('value', 'decode'),
                          'decode_vlq(%r) = %r / %r, expected %d' % (
                              s, d1, d2, n),
                          {'value': n, 'string': s, 'got': [repr(d1), repr(d2)],
                           'origin': origin})

    def check_list(vs, digits, origin):
        ns = [from_limbs(v) for v in vs]
        s = digits_to_str(digits)
        rep.count('evaluations')
        try:
            got = vlq.encode_vlqs(ns)
            back = vlq.decode_vlqs(s)
        except Exception as e:
            got = back = 'EXC %r' % (e,)
        if got != s:
            rep.violation(sig('list', 'encode'),
                          'encode_vlqs(%r) = %r, expected %r' % (ns, got, s),
                          {'values': ns, 'expected': s, 'got': got})
        elif back != tuple(ns):
            rep.violation(sig('list', 'decode'),
                          'decode_vlqs(%r) = %r, expected %r' % (s, back, ns),
                          {'values': ns, 'string': s, 'got': repr(back)})

    def check_map(m, digits, origin):
        ms = [[tuple(from_limbs(v) for v in seg) for seg in line]
              for line in m]
        s = digits_to_str(digits)
        rep.count('evaluations')
        try:
            got = vlq.encode_mappings(ms)
            back = vlq.decode_mappings(s)
        except Exception as e:
            got = back = 'EXC %r' % (e,)
        if got != s:
            rep.violation(sig('mappings', 'encode'),
                          'encode_mappings(%r) = %r, expected %r' % (
                              ms, got, s),
                          {'mappings': ms, 'expected': s, 'got': got})
        elif back != ms:
            rep.violation(sig('mappings', 'decode'),
                          'decode_mappings(%r) = %r, expected %r' % (
                              s, back, ms),
                          {'mappings': ms, 'string': s, 'got': repr(back)})

    if replay:
        case = replay['case']
        if 'value' in case:
            n = case['value']
            from_spec = run_single(n)
            check_val(to_limbs(n), from_spec, 'replay')
        return

    # ---- spec -> code -------------------------------------------------
    mc, cfg = model(rep.tier)
    r = run_tlc('MC_VLQ', cfg='MC_VLQ.cfg', cfg_text=cfg,
                modules={'MC_VLQ': mc}, workers=8)
    if r.violated:
        # the specification itself is inconsistent: machinery, not the code
        raise RuntimeError('VLQ.tla invariant %s violated:\n%s' % (
            r.violated, r.raw))
    rep.add_tlc(r)
    nontrivial = set()
    kinds = {'val': 0, 'list': 0, 'map': 0}
    for line in r.lines:
        row = json.loads(line)
        kinds[row[0]] += 1
        if row[0] == 'val':
            check_val([row[1], row[2]], row[3], 'tlc')
            if len(row[3]) > 1:
                nontrivial.add(line)
            if row[1] and len(row[2]) == 2:
                rep.sample({'value': from_limbs([row[1], row[2]]),
                            'vlq': digits_to_str(row[3])}, limit=3)
        elif row[0] == 'list':
            check_list(row[1], row[2], 'tlc')
            if len(row[1]) > 1:
                nontrivial.add(line)
        else:
            check_map(row[1], row[2], 'tlc')
            if sum(len(l) for l in row[1]) > 1:
                nontrivial.add(line)
                rep.sample({'mappings': [[[from_limbs(v) for v in seg]
                                          for seg in l] for l in row[1]],
                            'string': digits_to_str(row[2])}, limit=5)
    rep.notes['tlc_items'] = kinds

    # ---- implementation sweep against the table's closed form ---------
    # every integer of the symmetric range is in the TLC table for
    # |n| < 32**MaxLimbs; beyond it, agreement of the real codec with the
    # specification is established by trace validation below.
    rng = random.Random(rep.seed)
    recs = []
    nrec = 3000 if rep.tier == 'quick' else 40000
    for i in range(nrec):
        bits = rng.choice([6, 11, 16, 21, 31, 32, 33, 63, 64, 65, 127, 320])
        n = rng.getrandbits(bits) * rng.choice([1, -1])
        if i % 7 == 0:       # exact power-of-32 boundaries +- 1
            k = rng.randrange(1, 64)
            n = (32 ** k) * rng.choice([1, -1]) + rng.choice([-1, 0, 1])
        try:
            e = vlq.encode_vlq(n)
            d = vlq.decode_vlq(e)
            recs.append({'id': i, 'n': str(n), 'v': to_limbs(n),
                         'enc': str_to_digits(e), 'dec': to_limbs(d)})
        except Exception as ex:
            rep.violation(sig('value', 'exception'),
                          'codec raised %r on %d' % (ex, n), {'value': n})
    tf = os.path.join(tmp_dir('c10'), 'trace.ndjson')
    with open(tf, 'w') as f:
        for rec in recs:
            f.write(json.dumps(rec) + '\n')
    tcfg = ('SPECIFICATION TSpec\nCONSTANTS\n MaxLimbs = 1\n MaxK = 1\n'
            ' Pool <- PoolDef\n MaxLines = 1\nINVARIANT Verdict\n')
    tmc = ('---- MODULE MC_VLQTrace ----\nEXTENDS VLQTrace\n'
           'PoolDef == << <<FALSE, <<>> >> >>\n====\n')
    tr = run_tlc('MC_VLQTrace', cfg='MC_VLQTrace.cfg', cfg_text=tcfg,
                 modules={'MC_VLQTrace': tmc}, workers=8,
                 env={'TRACE_FILE': tf})
    rep.add_tlc(tr)
    byid = {rec['id']: rec for rec in recs}
    seen = 0
    for line in tr.lines:
        tid, clause = json.loads(line)
        seen += 1
        rep.count('traces_validated_against_impl')
        rep.count('evaluations')
        if len(byid[tid]['enc']) > 1:
            nontrivial.add('t%d' % tid)
        if clause != 'ok':
            rep.violation(sig('value', 'trace:' + clause.replace(' ', '-')),
                          'record for %s rejected by VLQTrace: %s' % (
                              byid[tid]['n'], clause),
                          {'value': int(byid[tid]['n']), 'record': byid[tid]})
    if seen != len(recs):
        raise RuntimeError('VLQTrace returned %d verdicts for %d records'
                           % (seen, len(recs)))
    rep.cov['distinct_nontrivial'] = len(nontrivial)
    rep.sample({'trace_record': recs[1]}, limit=8)


def run_single(n):
    """digits the specification dictates for one integer (replay mode)"""
    mc = ('---- MODULE MC_One ----\nEXTENDS VLQ\n'
          'PoolDef == << <<FALSE, <<>> >> >>\n'
          'One == %s\nASSUME PrintT(ToJson(Encode(One)))\n====\n'
          % tla_seq(to_limbs(n)))
    cfg = ('SPECIFICATION Spec\nCONSTANTS\n MaxLimbs = 0\n MaxK = 0\n'
           ' Pool <- PoolDef\n MaxLines = 1\n')
    r = run_tlc('MC_One', cfg='MC_One.cfg', cfg_text=cfg,
                modules={'MC_One': mc})
    return json.loads(r.lines[0])


RULE = ('TLC enumerates every integer with at most MaxLimbs base-32 limbs '
        '(both signs), boundary patterns up to MaxK limbs, lists and mapping '
        'structures; each row of the table is replayed into encode/decode; '
        'random and boundary big integers are recorded from the real codec '
        'and validated by VLQTrace.  Non-trivial = needs a continuation '
        'digit / more than one element; distinct by table row.')


def main(tier, seed, replay=None):
    rep = Report('C10', 'model_checking', tier, seed)
    rep.assumptions = [
        'base64 alphabet applied by the harness (digit value -> character)',
        'values beyond the exhaustive range are covered by patterns and '
        'seeded random samples only']
    run(rep, replay)
    return rep.finish(RULE, exhaustive=False)
