# -*- coding: utf-8 -*-
"""
C19 - literal data in a program is extracted as the equal Python value.

spec -> code: TLC enumerates JSON values (spec/JsonValue.tla) per theme
(number spellings, string spellings / escapes, key kinds, structure); each
is spelled, bound by `var`, by assignment and inside a function, parsed and
converted with ast_to_dict(fold_ops off / on); the result must be exactly
{name: json.loads(text)} (type-exact, key order ignored).
Model-based test generation: the model enumerates, json is the oracle for
the spelled text; level = exploration.
"""
import json

import impl
from common import Report, build_scratch, run_tlc, tla_seq

NUM = {
    'zero': '0', 'int': '42', 'negint': '-7', 'frac': '1.5', 'negfrac': '-0.25',
    'exp': '1e3', 'expplus': '1E+5', 'expminus': '25e-2', 'big':
    '12345678901234567890', 'negzero': '-0', 'zerofrac': '0.0',
    'zeroexp': '0e0', 'negexp': '-2E-3', 'fracexp': '6.02e23',
}
STR = {
    'empty': '""', 'plain': '"abc"', 'quote': '"a\\"b"', 'backslash': '"a\\\\b"',
    'slash': '"a\\/b"', 'b': '"\\b"', 'f': '"\\f"', 'n': '"\\n"', 'r': '"\\r"',
    't': '"\\t"', 'u': '"\\u00e9\\u0041"', 'pair': '"\\ud83d\\ude00"',
    'raw': '"é€\U0001F600"', 'apos': '"it\'s"', 'nul': '"\\u0000"',
    'space': '" a  b "',
    # hexadecimal digits of either case (JSON and ES5 allow both)
    'pairU': '"\\uD83D\\uDE00"', 'pairM': '"x\\uD83d\\uDe00\\uD834\\udd1e"',
    'uU': '"\\u00E9\\u00e9\\u2028"',
}
# adjacent string items: every ordered pair of these atoms (escapes, and
# the plain characters that would continue an escape if the backslash in
# front of them were read twice) - the lexical grammar of a string literal is
# a *sequence* of items, each read once, left to right
ATOMS = ['\\\\', '\\"', '\\/', '\\n', '\\u0041', '\\u00e9', 'u0041', 'x41',
         'n', '0', 'b']
PAIRS = {}
for _i, _a in enumerate(ATOMS):
    for _j, _b in enumerate(ATOMS):
        PAIRS['p%dq%d' % (_i, _j)] = '"' + _a + _b + '"'
STR.update(PAIRS)
KEY = {
    'ident': '"a"', 'ident2': '"b"', 'space': '"a b"', 'numlike': '"1"',
    'empty': '""', 'dup': '"a"', 'esc': '"k\\n"', 'proto': '"__proto__"',
}

THEMES = {
    'numbers': dict(num=sorted(NUM), str=['plain'], key=['ident'],
                    leaves=3, depth=1, width=2),
    'strings': dict(num=['int'], str=sorted(set(STR) - set(PAIRS)),
                    key=['ident'], leaves=3, depth=1, width=2),
    'escapes': dict(num=['int'], str=sorted(PAIRS), key=['ident'],
                    leaves=1, depth=1, width=1),
    'keys': dict(num=['int'], str=['plain'], key=sorted(KEY),
                 leaves=3, depth=1, width=2),
    'structure': dict(num=['negfrac'], str=['slash'], key=['ident', 'space'],
                      leaves=5, depth=3, width=2),
}
THOROUGH = {
    'numbers': dict(leaves=4, depth=2, width=2),
    'strings': dict(leaves=4, depth=2, width=2),
    'escapes': dict(leaves=2, depth=1, width=2),
    'keys': dict(leaves=4, depth=2, width=2),
    'structure': dict(leaves=6, depth=3, width=2),
}

RULE = ('every JSON value the JsonValue.tla generator derives per theme '
        '(all number spellings / all string spellings / all key kinds / deep '
        'structure) x {var, assignment, nested in a function} x {fold_ops '
        'off, on}.  Non-trivial = a container or a non-trivial spelling; '
        'distinct by (JSON text, form, fold_ops).')


def spell(out):
    """product of JsonValue.tla -> JSON text (which is also the JS literal)"""
    parts = []
    need_comma = [False]
    for tok in out:
        if tok in (']', '}'):
            need_comma.pop()
            parts.append(tok)
            need_comma[-1] = True
            continue
        if tok.startswith('k:'):
            if need_comma[-1]:
                parts.append(', ')
            parts.append(KEY[tok[2:]] + ': ')
            need_comma[-1] = False
            continue
        if need_comma[-1]:
            parts.append(', ')
        if tok in ('[', '{'):
            parts.append(tok)
            need_comma.append(False)
        else:
            if tok.startswith('n:'):
                parts.append(NUM[tok[2:]])
            elif tok.startswith('s:'):
                parts.append(STR[tok[2:]])
            else:
                parts.append(tok)
            need_comma[-1] = True
    return ''.join(parts)


def same(a, b):
    """type-exact equality (1 vs 1.0 vs True differ), dict order ignored"""
    if type(a) is not type(b):
        return False
    if isinstance(a, dict):
        return set(a) == set(b) and all(same(a[k], b[k]) for k in a)
    if isinstance(a, list):
        return len(a) == len(b) and all(same(x, y) for x, y in zip(a, b))
    if isinstance(a, float):
        return a == b or (a != a and b != b)
    return a == b


FORMS = {
    'var': ('var x = %s;', lambda v: {'x': v}),
    'assign': ('x = %s;', lambda v: {'x': v}),
    'function': ('function f() { var x = %s; }',
                 lambda v: {'f': [[], {'x': v}]}),
}


def _extract(case):
    text, form, fold = case
    from calmjs.parse.parsers.es5 import parse
    from calmjs.parse.unparsers.extractor import ast_to_dict
    src = FORMS[form][0] % text
    try:
        got = ast_to_dict(parse(src), fold_ops=fold)
    except Exception as e:
        return ('exc', repr(e), src)
    want = FORMS[form][1](json.loads(text))
    if same(got, want):
        return None
    return ('value', repr(got), src, repr(want))


def main(tier, seed, replay=None):
    rep = Report('C19', 'exploration', tier, seed)
    rep.assumptions = [
        'the spelled literal is read by json.loads to obtain the expected '
        'Python value (the concretiser only emits JSON-valid text)',
        'equality is type-exact; the sign of an integer zero is not compared']
    build_scratch()
    cases = []
    texts = set()
    for name, th in THEMES.items():
        cfg = dict(th)
        if tier != 'quick':
            cfg.update(THOROUGH[name])
        mc = ('---- MODULE MC_json ----\nEXTENDS JsonValue\n'
              'NumDef == %s\nStrDef == %s\nKeyDef == %s\n====\n' % (
                  '{' + ', '.join(json.dumps(k) for k in cfg['num']) + '}',
                  '{' + ', '.join(json.dumps(k) for k in cfg['str']) + '}',
                  '{' + ', '.join(json.dumps(k) for k in cfg['key']) + '}'))
        cfgt = ('SPECIFICATION Spec\nCONSTANTS\n MaxLeaves = %d\n MaxDepth = %d\n'
                ' MaxWidth = %d\n NumKinds <- NumDef\n StrKinds <- StrDef\n'
                ' KeyKinds <- KeyDef\nINVARIANT EmitValue\n' % (
                    cfg['leaves'], cfg['depth'], cfg['width']))
        r = run_tlc('MC_json', cfg='MC_json.cfg', cfg_text=cfgt,
                    modules={'MC_json': mc}, workers=4)
        rep.add_tlc(r)
        rep.notes.setdefault('values_per_theme', {})[name] = len(r.lines)
        for line in r.lines:
            texts.add(spell(json.loads(line)))
    texts = sorted(texts)
    for t in texts:
        json.loads(t)           # the concretiser emits valid JSON only
    distinct = 0
    passes = [(form, fold) for form in FORMS for fold in (False, True)]
    results = []
    for form, fold in passes:       # one pass per configuration (memory)
        work = [(t, form, fold) for t in texts]
        res = impl.pmap(_extract, work, chunk=500)
        rep.cov['evaluations'] = rep.cov.get('evaluations', 0) + len(work)
        distinct += sum(1 for t in texts if len(t) > 4)
        results.extend((w, r) for w, r in zip(work, res) if r is not None)
    for (text, form, fold), r in results:
        # name the kind of value at which the results differ
        kinds = sorted({k for k, v in list(NUM.items()) + list(STR.items())
                        if v in text and len(v) > 2} )
        sig = 'C19 value clause=%s spelling=%s form=%s fold=%s' % (
            r[0], '+'.join(kinds[:3]) or 'plain', form, fold)
        rep.violation(sig, 'ast_to_dict(%r, fold_ops=%s) = %s, JSON value is %s'
                      % (r[2], fold, r[1], r[3] if len(r) > 3 else '?'),
                      {'source': r[2], 'fold_ops': fold, 'got': r[1],
                       'expected': r[3] if len(r) > 3 else None})
    rep.cov['distinct_nontrivial'] = distinct
    rep.sample({'literal': texts[len(texts) // 2]})
    rep.sample({'literal': texts[-1]})
    return rep.finish(RULE, exhaustive=True)
