# -*- coding: utf-8 -*-
"""
C11 - every AST node position is self-consistent and lies on its own token.

The derivation machine dictates, for every node, its first token and the
terminals of its own production; the concretiser knows every token's offset.
For real trees of concretised sentences (rich layout) each node's
(lexpos, lineno, colno) and every _token_map entry becomes a probe validated
by spec/PosTrace.tla (LineCol counting); anchoring / text facts are computed
here from the specification's token ownership and asserted by the trace spec.
"""
import random

import gen
import impl
import postrace
import project
from common import Report, build_scratch
from concretise import concretise, layout_variant

THEMES = ['lhs', 'stmt', 'iter', 'ctrl', 'lit', 'prec', 'acc', 'switch',
          'asi']

RULE = ('sentences derived by TLC (themes, subsampled by tree shape, + '
        'simulate) concretised with rich spellings and random layout '
        '(comments, CR/CRLF/LS/PS, multi-line tokens); one PosTrace record '
        'per program with a probe per node and per token-map entry.  '
        'Non-trivial = at least one line terminator in the text and >= 3 '
        'nodes; distinct by text.')


def pair(snode, rnode, out):
    """parallel walk of dictated and real tree -> [(SNode chain, real)]"""
    if snode is None or rnode is None:
        return snode is None and rnode is None
    chain = [snode]
    while snode.kind == 'GroupingOp' and snode.children[0] is not None \
            and snode.children[0].kind == 'GroupingOp':
        snode = snode.children[0]
        chain.append(snode)
    kind = type(rnode).__name__
    if kind != snode.kind:
        return False
    out.append((chain, rnode))
    if kind in project.VALUE_KINDS:
        return True
    fields = project.PROJ[kind][1]
    d = vars(rnode)
    real = []
    for name, mode in fields:
        v = d.get(name)
        if mode == project.L:
            real.extend(v or [])
        else:
            real.append(v)
    if len(real) != len(snode.children):
        return False
    return all(pair(s, r, out) for s, r in zip(snode.children, real))


def _probes(case):
    text, sent = case
    from calmjs.parse.parsers.es5 import parse
    try:
        tree = parse(text)
    except Exception as e:
        return ('noparse', repr(e))
    pairs = []
    if not pair(sent.root, tree, pairs):
        return ('mismatch',)
    toks = sent.tokens
    starts = {t.start: t.idx for t in toks}
    probes = []
    for chain, r in pairs:
        sn = chain[-1]
        kind = sn.kind
        lexpos, lineno, colno = r.lexpos, r.lineno, r.colno
        if chain[0].first is None and chain[0].meta != 'placeholder':
            continue      # a node without any token (empty program)
        if not all(isinstance(x, int) for x in (lexpos, lineno, colno)) \
                or lexpos < 0 or lexpos > len(text):
            probes.append([0, -1, -1, False, 'node', kind, 'unset'])
            continue
        own = set()
        for c in chain:
            own.update(c.own)
        if chain[0].first is not None:
            own.add(chain[0].first)
        if chain[0].meta == 'placeholder':
            anchor = True
            rel = 'placeholder'
        else:
            ti = starts.get(lexpos)
            anchor = ti in own
            if anchor:
                rel = 'own'
            elif ti is None:
                rel = 'not-a-token-start'
            elif chain[0].first is not None and \
                    chain[0].first <= ti <= chain[0].last:
                rel = 'token-of-a-child'
            else:
                rel = 'outside-extent'
        probes.append([lexpos, lineno, colno, anchor, 'node', kind, rel])
        # positions recorded for literal tokens
        tm = getattr(r, '_token_map', None) or {}
        virtual = any(it.virtual and it.owner is c
                      for c in chain for it in sent.items if it.virtual)
        for s, entries in tm.items():
            for e in entries:
                if not (isinstance(e, tuple) and len(e) == 3):
                    probes.append([0, -1, -1, False, 'tokenmap', kind, 'shape'])
                    continue
                off, line, col = e
                key = ',' if kind == 'Elision' else s
                ok = (isinstance(off, int) and 0 <= off <= len(text)
                      and text[off:off + len(key)] == key)
                if s == ';' and virtual and e is entries[-1]:
                    continue          # semicolon supplied by ASI: exempt
                if not isinstance(off, int) or not (0 <= off <= len(text)):
                    probes.append([0, -1, -1, False, 'tokenmap', kind, s])
                    continue
                probes.append([off, line, col, ok, 'tokenmap', kind, s])
    return ('ok', probes, len(pairs))


def main(tier, seed, replay=None):
    rep = Report('C11', 'model_checking', tier, seed)
    rep.assumptions = [
        'which tokens a node owns comes from the derivation (ES5Grammar.tla); '
        'anchoring and substring facts are computed by the harness and '
        'asserted by PosTrace.tla',
        'programs whose real tree differs from the dictated one are skipped '
        '(that is C03)']
    build_scratch()
    rng = random.Random(seed)
    themes = gen.run_themes(THEMES, tier, rep, jobs=9)
    r, deep = gen.simulate(2500 if tier == 'quick' else 10000,
                           maxtok=30 if tier == 'quick' else 40, maxnl=2,
                           seed=seed + 5, workers=8)
    rep.add_tlc(r)
    triples = set()
    keep = list(deep)
    mod = 10 if tier == 'quick' else 4
    for n in THEMES:
        for s in themes[n]:
            new = False
            for nd in s.nodes:
                t = (nd.kind, tuple(c is None for c in nd.children),
                     nd.parent.kind if nd.parent else '')
                if t not in triples:
                    triples.add(t)
                    new = True
            if new or hash(s.key()) % mod == 0:
                keep.append(s)
    rep.mark('generated')
    work = []
    for s in keep:
        for v in range(2):
            text = concretise(s, seed=rng.randrange(1000), pools='rich',
                              gaps=layout_variant(s, rng, 0.3 * v))
            work.append((text, s))
            # the concretiser mutates s.tokens; keep a frozen copy of offsets
            work[-1] = (text, _freeze(s))
    res = impl.pmap(_probes, work, chunk=300)
    rep.mark('recorded')
    records = []
    skipped = {'noparse': 0, 'mismatch': 0}
    for i, ((text, s), r) in enumerate(zip(work, res)):
        if r[0] != 'ok':
            skipped[r[0]] = skipped.get(r[0], 0) + 1
            continue
        records.append({'id': i, 'text': text, 'probes': r[1],
                        'nodes': r[2]})
    rep.notes['skipped'] = skipped
    verdicts = postrace.validate(records, 'c11', rep)
    rep.mark('validated')
    distinct = set()
    for rec in records:
        text = rec['text']
        i = rec['id']
        why, k = verdicts[i]
        rep.count('evaluations')
        rep.count('traces_validated_against_impl')
        if rec['nodes'] >= 3 and any(c in text for c in '\n\r\u2028\u2029'):
            distinct.add(text)
        if why == 'ok':
            continue
        p = rec['sorted'][k]
        sent = work[i][1]
        if why == 'position':
            ext = [(t.start, len(t.text)) for t in sent.tokens]
            model = postrace.gap_lsps_model(text, ext + comment_extents(text, ext))
            bad = [q for q in rec['sorted']
                   if q[1] >= 0 and model is not None
                   and model.get(q[0]) != (q[1], q[2])]
            if model is not None and not bad:
                sig = 'C11 linecol lt=LS|PS in=gap not-counted'
            else:
                sig = 'C11 linecol %s kind=%s' % (p[4], p[5])
        elif why == 'fact' and p[4] == 'node':
            sig = 'C11 anchor kind=%s got=%s' % (p[5], p[6])
        elif why == 'fact':
            sig = 'C11 tokenmap kind=%s text=%s' % (p[5], p[6])
        else:
            sig = 'C11 %s kind=%s' % (why, p[5])
        rep.violation(sig, 'PosTrace.tla rejects probe %r of %r: %s'
                      % (p, text, why),
                      {'text': text, 'probe': p, 'abstract': sent.abstract(),
                       'dictated': sent.bracketed()})
    rep.cov['distinct_nontrivial'] = len(distinct)
    if records:
        r0 = records[len(records) // 2]
        rep.sample({'text': r0['text'], 'probes': r0['sorted'][:10]})
    return rep.finish(RULE)


def comment_extents(text, token_extents):
    """extents of the comments the concretiser placed in gaps"""
    inside = [False] * (len(text) + 1)
    for a, n in token_extents:
        for j in range(a, a + n):
            inside[j] = True
    out = []
    j = 0
    while j < len(text) - 1:
        if not inside[j] and text[j] == '/' and text[j + 1] == '*':
            e = text.find('*/', j + 2)
            e = len(text) if e < 0 else e + 2
            out.append((j, e - j))
            j = e
        elif not inside[j] and text[j] == '/' and text[j + 1] == '/':
            e = j
            while e < len(text) and text[e] not in '\n\r\u2028\u2029':
                e += 1
            out.append((j, e - j))
            j = e
        else:
            j += 1
    return out


def _freeze(sent):
    import copy
    return copy.deepcopy(sent)
