# -*- coding: utf-8 -*-
"""
Shared machinery for every check:

* scratch build of /repo/src/calmjs (DESIGN 1.2) and forced module origin
* running TLC (exhaustive / simulate / trace validation) and reading back
  what it printed
* evidence, replay files, known findings, the VIOLATION / KNOWN-FINDING lines

Exit codes of a check: 0 = property held on everything explored (known
findings allowed), 1 = at least one VIOLATION, 2 = machinery failure.
"""
from __future__ import annotations

import atexit
import json
import os
import re
import shutil
import subprocess
import sys
import tempfile
import time
import types

HERE_HARNESS = os.path.dirname(os.path.abspath(__file__))
VERIF = os.path.dirname(HERE_HARNESS)
REPO = os.environ.get('VERIF_REPO', '/repo')
SPEC = os.path.join(VERIF, 'spec')
EVIDENCE = os.path.join(VERIF, 'evidence')
REPLAY = os.path.join(VERIF, 'replay')
KNOWN = os.path.join(VERIF, 'known_findings.json')
TLA_CP = ('/opt/veriftools/tla/tla2tools.jar:'
          '/opt/veriftools/tla/CommunityModules-deps.jar')
NCPU = os.cpu_count() or 4


class MachineryError(Exception):
    """Something in the checking machinery (not the code under test) broke."""


def die_machinery(msg):
    sys.stdout.flush()
    sys.stderr.write('MACHINERY-FAILURE: %s\n' % msg)
    sys.stderr.flush()
    os._exit(2)


# --------------------------------------------------------------------------
# temp space

_tmp_root = None


def tmp_root():
    global _tmp_root
    if _tmp_root is None:
        base = os.environ.get('VERIF_TMP') or tempfile.gettempdir()
        _tmp_root = tempfile.mkdtemp(prefix='calmjs-verif-', dir=base)
        pid = os.getpid()

        def _rm(path=_tmp_root, pid=pid):
            if os.getpid() == pid:
                shutil.rmtree(path, ignore_errors=True)
        atexit.register(_rm)
    return _tmp_root


def tmp_dir(name):
    p = os.path.join(tmp_root(), name)
    os.makedirs(p, exist_ok=True)
    return p


# --------------------------------------------------------------------------
# scratch build

_scratch = None


def build_scratch(dest=None, src=None, import_now=True):
    """
    Copy <repo>/src/calmjs to a scratch directory outside /repo and /verif,
    drop any ply tab modules, bind the `calmjs` namespace to it and import
    the parser (which regenerates the tables from the *current* sources).
    """
    global _scratch
    if _scratch is not None and dest is None:
        return _scratch
    src = src or os.path.join(REPO, 'src', 'calmjs')
    if not os.path.isdir(src):
        raise MachineryError('no source tree at %s' % src)
    root = dest or tmp_dir('scratch')
    target = os.path.join(root, 'calmjs')
    if os.path.exists(target):
        shutil.rmtree(target)
    shutil.copytree(src, target, ignore=shutil.ignore_patterns(
        '__pycache__', '*.pyc', 'lextab_*', 'yacctab_*', 'parser.out'))
    if dest is None:
        _scratch = root
    if import_now:
        bind_scratch(root)
    return root


def bind_scratch(root):
    """Force `calmjs.parse` to be imported from the scratch copy only."""
    os.environ['CALMJS_PARSE_VERIF'] = '1'
    for name in list(sys.modules):
        if name == 'calmjs' or name.startswith('calmjs.'):
            del sys.modules[name]
    m = types.ModuleType('calmjs')
    m.__path__ = [os.path.join(root, 'calmjs')]
    sys.modules['calmjs'] = m
    sys.dont_write_bytecode = True
    import calmjs.parse.parsers.es5 as p  # noqa: generates tab modules
    try:
        p.Parser()
    except Exception as e:   # pragma: no cover
        raise MachineryError('cannot construct Parser from scratch build: %r'
                             % (e,))
    check_origin(root)


def check_origin(root):
    bad = []
    for name, mod in list(sys.modules.items()):
        if name.startswith('calmjs.parse'):
            f = getattr(mod, '__file__', None)
            if f and not os.path.abspath(f).startswith(
                    os.path.abspath(root) + os.sep):
                bad.append((name, f))
    if bad:
        raise MachineryError('modules loaded from outside scratch: %r' % bad)


# --------------------------------------------------------------------------
# TLC

RE_STATES = re.compile(
    r'(\d+) states generated, (\d+) distinct states found')
RE_SIM = re.compile(r'The number of states generated: (\d+)')


class TLCResult(object):
    def __init__(self):
        self.states = 0          # distinct states
        self.generated = 0       # states generated == transitions taken (+init)
        self.lines = []          # payload lines printed by PrintT
        self.ok = False
        self.raw = ''
        self.wall = 0.0
        self.violated = None     # name of violated invariant/property, if any
        self.cmd = ''


def run_tlc(module, cfg=None, workers=1, env=None, timeout=3600,
            simulate=None, depth=None, seed=None, heap='3g',
            deadlock=False, extra=(), cwd=None, must_succeed=True,
            keep_raw=False, cfg_text=None, modules=None):
    """
    Run TLC on spec/<module>.tla with spec/<cfg>; returns TLCResult.
    Lines that TLC printed via PrintT(<string>) come back in .lines with the
    TLA+ string quoting removed.
    """
    cfg = cfg or (module + '.cfg')
    if cfg_text is not None or modules:
        # generated model: lives in a temp dir, spec modules via TLA-Library
        cwd = tempfile.mkdtemp(prefix='mc-', dir=tmp_root())
        for name, text in (modules or {}).items():
            with open(os.path.join(cwd, name + '.tla'), 'w') as f:
                f.write(text)
        if cfg_text is not None:
            with open(os.path.join(cwd, cfg), 'w') as f:
                f.write(cfg_text)
        else:
            shutil.copy(os.path.join(SPEC, cfg), os.path.join(cwd, cfg))
    cwd = cwd or SPEC
    meta = tempfile.mkdtemp(prefix='tlc-', dir=tmp_root())
    cmd = ['java', '-XX:+UseParallelGC', '-XX:ParallelGCThreads=2',
           '-XX:CICompilerCount=2', '-Xmx' + heap, '-Xss64m',
           '-DTLA-Library=' + SPEC,
           '-cp', TLA_CP, 'tlc2.TLC',
           '-metadir', meta, '-noGenerateSpecTE',
           '-workers', str(workers), '-config', cfg]
    if not deadlock:
        cmd.append('-deadlock')   # -deadlock *disables* deadlock checking
    if simulate:
        cmd += ['-simulate', 'num=%d' % simulate]
        if depth:
            cmd += ['-depth', str(depth)]
    if seed is not None:
        cmd += ['-seed', str(seed)]
    cmd += list(extra)
    cmd.append(module)
    e = dict(os.environ)
    e.pop('JAVA_TOOL_OPTIONS', None)
    if env:
        e.update(env)
    r = TLCResult()
    r.cmd = ' '.join(cmd)
    t0 = time.time()
    try:
        p = subprocess.run(cmd, cwd=cwd, env=e, stdout=subprocess.PIPE,
                           stderr=subprocess.STDOUT, timeout=timeout)
    except subprocess.TimeoutExpired:
        shutil.rmtree(meta, ignore_errors=True)
        raise MachineryError('TLC timed out after %ss: %s' % (timeout, r.cmd))
    r.wall = time.time() - t0
    shutil.rmtree(meta, ignore_errors=True)
    out = p.stdout.decode('utf-8', 'replace')
    r.raw = out if keep_raw else out[-6000:]
    for line in out.splitlines():
        if line.startswith('"') and line.endswith('"'):
            try:
                r.lines.append(json.loads(line))
            except ValueError:
                r.lines.append(line[1:-1])
    m = None
    for m in RE_STATES.finditer(out):
        pass
    if m:
        r.generated, r.states = int(m.group(1)), int(m.group(2))
    else:
        m = RE_SIM.search(out)
        if m:
            r.generated = r.states = int(m.group(1))
    mv = re.search(r'Invariant (\S+) is violated', out)
    if mv:
        r.violated = mv.group(1)
    elif 'is violated' in out or 'Temporal properties were violated' in out:
        r.violated = 'property'
    r.ok = (p.returncode == 0 and 'Error:' not in out)
    if must_succeed and not r.ok and r.violated is None:
        raise MachineryError('TLC failed (%s):\n%s' % (r.cmd, out[-3000:]))
    return r


def tla_seq(items):
    """Python list of ints/strs/lists -> TLA+ literal (used in generated cfg
    modules)."""
    def one(x):
        if isinstance(x, bool):
            return 'TRUE' if x else 'FALSE'
        if isinstance(x, int):
            return str(x)
        if isinstance(x, str):
            return json.dumps(x)
        if isinstance(x, (list, tuple)):
            return '<<' + ', '.join(one(i) for i in x) + '>>'
        if isinstance(x, dict):
            return '[' + ', '.join('%s |-> %s' % (k, one(v))
                                   for k, v in x.items()) + ']'
        raise TypeError(x)
    return one(items)


# --------------------------------------------------------------------------
# findings / evidence

def load_known():
    if not os.path.exists(KNOWN):
        return {}
    with open(KNOWN) as f:
        data = json.load(f)
    out = {}
    for entry in data.get('findings', []):
        out.setdefault(entry['property'], {})[entry['signature']] = entry
    return out


class Report(object):
    """Collects what a check explored and decides its exit status."""

    def __init__(self, prop, level, tier=None, seed=None):
        self.prop = prop
        self.level = level
        self.tier = tier or os.environ.get('VERIF_TIER') or 'quick'
        if self.tier not in ('quick', 'thorough'):
            self.tier = 'quick'
        self.seed = int(seed if seed is not None
                        else os.environ.get('VERIF_SEED') or 0)
        self.t0 = time.time()
        self.known = load_known().get(prop, {})
        self.violations = []       # (signature, what, replay_path)
        self.known_hit = {}        # signature -> count
        self.cov = {'evaluations': 0, 'distinct_nontrivial': 0,
                    'states': 0, 'transitions': 0,
                    'traces_validated_against_impl': 0,
                    'samples': []}
        self.assumptions = []
        self.notes = {}
        self._replay_n = 0
        self._seen_sig = {}
        os.makedirs(EVIDENCE, exist_ok=True)

    # -- counting -----------------------------------------------------
    def mark(self, label):
        """wall-clock since start, recorded in the evidence (cost accounting)"""
        self.notes.setdefault('timeline_s', {})[label] = round(
            time.time() - self.t0, 1)

    def add_tlc(self, r):
        self.cov['states'] += r.states
        self.cov['transitions'] += r.generated

    def count(self, key, n=1):
        self.cov[key] = self.cov.get(key, 0) + n

    def sample(self, obj, limit=8):
        if len(self.cov['samples']) < limit:
            self.cov['samples'].append(obj)

    # -- verdicts -----------------------------------------------------
    def violation(self, signature, what, replay):
        """
        Record a disagreement between the real code and the specification.
        `signature` is abstract (DESIGN appendix C); a signature listed in
        known_findings.json is a KNOWN-FINDING, anything else a VIOLATION.
        """
        n = self._seen_sig.get(signature, 0)
        self._seen_sig[signature] = n + 1
        if signature in self.known:
            self.known_hit[signature] = self.known_hit.get(signature, 0) + 1
            return False
        if n >= 3:      # keep at most three replays per signature
            self.violations.append((signature, what, None))
            return True
        d = os.path.join(REPLAY, self.prop)
        os.makedirs(d, exist_ok=True)
        self._replay_n += 1
        path = os.path.join(d, '%s-%s-%03d.json' % (
            self.prop, self.tier, self._replay_n))
        with open(path, 'w') as f:
            json.dump({'property': self.prop, 'signature': signature,
                       'what': what, 'tier': self.tier, 'seed': self.seed,
                       'case': replay}, f, indent=1, sort_keys=True,
                      default=repr)
        self.violations.append((signature, what, path))
        return True

    def finish(self, rule, extra=None, exhaustive=None):
        cov = self.cov
        cov['rule'] = rule
        if exhaustive is not None:
            cov['exhaustive'] = bool(exhaustive)
        cov['known_findings_hit'] = dict(self.known_hit)
        sigs = {}
        for s, _, _ in self.violations:
            sigs[s] = sigs.get(s, 0) + 1
        cov['violation_signatures'] = sigs
        if extra:
            cov.update(extra)
        cov.update(self.notes)
        ev = {
            'property_id': self.prop, 'tier': self.tier, 'seed': self.seed,
            'level': self.level, 'coverage': cov,
            'assumptions': self.assumptions,
            'wall_s': round(time.time() - self.t0, 2),
            'violations': len(self.violations),
        }
        want = os.environ.get('VERIF_REPLAY_SIG')
        if want is not None:
            again = want in sigs or want in self.known_hit
            print('REPLAY property=%s signature=%r reproduced=%s' % (
                self.prop, want, 'yes' if again else 'no'))
            sys.stdout.flush()
            return 1 if again and want in sigs else 0
        path = os.path.join(EVIDENCE, self.prop + '.json')
        tmp = path + '.tmp'
        with open(tmp, 'w') as f:
            json.dump(ev, f, indent=1, sort_keys=True, default=repr)
        os.replace(tmp, path)
        for sig in sorted(self.known_hit):
            print('KNOWN-FINDING: property=%s %s (x%d)' % (
                self.prop, sig, self.known_hit[sig]))
        printed = set()
        for sig, what, path in self.violations:
            if path is None or sig in printed:
                continue
            printed.add(sig)
            print('VIOLATION property=%s replay=%s' % (self.prop, path))
            print('  signature: %s' % sig)
            print('  what: %s' % what)
        print('%s %s: evaluations=%d distinct_nontrivial=%d states=%d '
              'traces=%d violations=%d known=%d wall=%.1fs' % (
                  self.prop, self.tier, cov['evaluations'],
                  cov['distinct_nontrivial'], cov['states'],
                  cov['traces_validated_against_impl'],
                  len(self.violations), sum(self.known_hit.values()),
                  ev['wall_s']))
        sys.stdout.flush()
        return 1 if self.violations else 0


def load_replay(path):
    with open(path) as f:
        return json.load(f)


# --------------------------------------------------------------------------
# parallel map over the implementation (fork after scratch import)

def pmap(fn, items, chunksize=64, procs=None):
    import multiprocessing as mp
    items = list(items)
    procs = procs or min(NCPU, max(1, len(items) // max(1, chunksize)))
    if procs <= 1 or len(items) < 2 * chunksize:
        return [fn(x) for x in items]
    ctx = mp.get_context('fork')
    with ctx.Pool(procs) as pool:
        return pool.map(fn, items, chunksize)


def validate_trace(module, records, name, rep=None, chunk=6000, jobs=4,
                   workers=3, heap='3g'):
    """
    Batch trace validation: the records (dicts with an `id`) are written as
    NDJSON in slices of `chunk` records, each slice is validated by its own
    TLC run of spec/<module>.tla (SPECIFICATION Spec, INVARIANT Verdict, one
    behaviour per record) and the PrintT lines of all runs are returned.
    Slices keep every JVM small: TLC deserialises the whole trace file once
    per worker thread, so one large file with many workers exhausts the
    heap.
    """
    from concurrent.futures import ThreadPoolExecutor
    d = tmp_dir(name)
    files = []
    for n, i in enumerate(range(0, len(records), chunk)):
        tf = os.path.join(d, '%s-%d.ndjson' % (module, n))
        with open(tf, 'w') as f:
            for r in records[i:i + chunk]:
                f.write(json.dumps(r) + '\n')
        files.append(tf)

    def one(tf):
        return run_tlc(module, cfg=module + '.cfg',
                       cfg_text='SPECIFICATION Spec\nINVARIANT Verdict\n',
                       modules={'Dummy_': '---- MODULE Dummy_ ----\n====\n'},
                       workers=workers, env={'TRACE_FILE': tf}, heap=heap)
    lines = []
    with ThreadPoolExecutor(max_workers=jobs) as ex:
        for tr in ex.map(one, files):
            if rep is not None:
                rep.add_tlc(tr)
            lines.extend(tr.lines)
    for tf in files:
        try:
            os.unlink(tf)
        except OSError:
            pass
    return lines
