# -*- coding: utf-8 -*-
"""
Running the ES5Grammar derivation machine per theme (DESIGN 3.4) and reading
the sentences-with-trees it produces.
"""
import json
import os
import sys
from concurrent.futures import ThreadPoolExecutor

from common import run_tlc, tla_seq, MachineryError
from sentence import parse_lines

# theme -> (start symbol, token classes, {tier: (MaxTok, MaxNL)})
# A production is enabled only if all of its terminals are in the theme, so a
# theme is a sub-grammar; the union of the themes covers every production.
THEMES = {
    # operator precedence / associativity / assignment / conditional / comma
    'prec': ('Program',
             ['ID', 'NUM', ';', '=', '+=', '?', ':', ',', '||', '&&', '|',
              '^', '&', '==', '<', 'in', '<<', '+', '*', '!', '-', '++'],
             {'quick': (5, 0), 'thorough': (6, 0)}),
    'prec2': ('Program',
              ['ID', ';', '!==', '===', '!=', '>', '<=', '>=', 'instanceof',
               '>>', '>>>', '-', '/', '%', 'typeof', 'void', 'delete', '~',
               '--', '*=', '/=', '%=', '-=', '<<=', '>>=', '>>>=', '&=',
               '^=', '|='],
              {'quick': (5, 0), 'thorough': (6, 0)}),
    # member / call / new / grouping / function expression
    'lhs': ('Program',
            ['ID', 'IDN', ';', '.', '[', ']', '(', ')', 'new', ',', 'this',
             'function', '{', '}', '=', '++'],
            {'quick': (6, 0), 'thorough': (8, 0)}),
    # statements: blocks, if/else, var, return, function declarations
    'stmt': ('Program',
             ['ID', ';', '{', '}', 'if', 'else', '(', ')', 'var', '=', ',',
              'return', 'function', 'NUM'],
             {'quick': (7, 0), 'thorough': (9, 0)}),
    # iteration
    'iter': ('Program',
             ['ID', ';', 'for', 'while', 'do', '(', ')', 'var', 'in', '=',
              ',', '<', '{', '}'],
             {'quick': (8, 0), 'thorough': (10, 0)}),
    # switch / try / label / break / continue / throw / with / debugger
    'ctrl': ('Program',
             ['ID', ';', '{', '}', '(', ')', ':', 'switch', 'case', 'default',
              'try', 'catch', 'finally', 'break', 'continue', 'throw', 'with',
              'debugger'],
             {'quick': (7, 0), 'thorough': (9, 0)}),
    # literals: object / array / elision / accessors / property names
    'lit': ('Program',
            ['ID', 'IDN', 'NUM', 'STR', 'REGEX', ';', '=', '{', '}', '[', ']',
             ',', ':', 'GET', 'SET', '(', ')', 'null', 'true', 'false'],
            {'quick': (5, 0), 'thorough': (7, 0)}),
    # accessors, function expressions with parameters and bodies
    'acc': ('ParenExpr',
            ['ID', 'IDN', '{', '}', 'GET', 'SET', '(', ')', ';', ',', ':',
             'STR', 'NUM'],
            {'quick': (12, 0), 'thorough': (14, 0)}),
    'switch': ('Program',
               ['ID', '{', '}', '(', ')', ':', 'switch', 'case', 'default',
                'break'],
               {'quick': (10, 0), 'thorough': (12, 0)}),
    # `/` as division, `/=`, regex after every kind of predecessor
    'slash': ('Program',
              ['ID', 'REGEX', '/', '/=', ';', '(', ')', '{', '}', '[', ']',
               'if', 'while', '++', '=', '.', 'IDN', 'function', 'NUM'],
              {'quick': (6, 0), 'thorough': (8, 0)}),
    # the NoIn family: every operator inside a for-initialiser
    'noin1': ('ForExpr',
              ['ID', ';', 'for', '(', ')', '=', '+=', '?', ':', ',', '||',
               '&&', '|', '^', '&', '==', '<', '<<', '+', '*', '!', 'in'],
              {'quick': (12, 0), 'thorough': (13, 0)}),
    'noin2': ('ForVar',
              ['ID', ';', 'for', '(', ')', 'var', '=', '!==', '===', '!=',
               '>', '<=', '>=', 'instanceof', '>>', '>>>', '-', '/', '%',
               '?', ':', '||', '&&', '|', '^', '&', 'in'],
              {'quick': (14, 0), 'thorough': (15, 0)}),
    # `/` after statement headers, blocks, keywords
    'slash2': ('Program',
               ['ID', 'REGEX', '/', ';', '(', ')', '{', '}', 'for', 'with',
                'do', 'while', 'else', 'if', 'in', 'return', 'typeof', ','],
               {'quick': (7, 0), 'thorough': (8, 1)}),
    'slash3': ('Program',
               ['ID', 'REGEX', '/', '/=', ';', '(', ')', '{', '}', '[', ']',
                '++', '=', '.', 'IDN', 'function', 'NUM', '+', ':', '?'],
               {'quick': (5, 1), 'thorough': (6, 2)}),
    # automatic semicolon insertion: terminators x line breaks
    'asi': ('Program',
            ['ID', ';', '{', '}', '(', ')', '=', '+', '++', 'return', 'var',
             'break', 'throw', 'do', 'while', 'if', 'else', 'for', 'REGEX',
             '/', ',', 'continue', 'debugger', '[', ']'],
            {'quick': (5, 1), 'thorough': (6, 2)}),
    # restricted productions, postfix / prefix, member continuation
    'asi2': ('Program',
             ['ID', ';', '{', '}', '(', ')', '=', '+', '++', '--', 'return',
              'var', 'break', 'throw', 'do', 'while', 'continue', 'debugger',
              '[', ']', '-', 'NUM', 'function', '.', 'IDN', ','],
             {'quick': (5, 1), 'thorough': (6, 2)}),
    # terminators inside control structures; for headers; if/else
    'asi3': ('Program',
             ['ID', ';', '{', '}', '(', ')', 'return', 'break', 'throw',
              'continue', 'if', 'else', 'for', 'while', 'do', 'var', '=',
              'in'],
             {'quick': (6, 1), 'thorough': (8, 2)}),
}


ALL_SIGMA = sorted({
    'ID', 'IDN', 'NUM', 'STR', 'REGEX', 'GET', 'SET', 'this', 'null', 'true',
    'false', ';', ',', '.', '(', ')', '[', ']', '{', '}', '?', ':',
    '=', '*=', '/=', '%=', '+=', '-=', '<<=', '>>=', '>>>=', '&=', '^=', '|=',
    '||', '&&', '|', '^', '&', '==', '!=', '===', '!==', '<', '>', '<=', '>=',
    'instanceof', 'in', '<<', '>>', '>>>', '+', '-', '*', '/', '%',
    'delete', 'void', 'typeof', '++', '--', '~', '!', 'new', 'function',
    'var', 'if', 'else', 'do', 'while', 'for', 'continue', 'break', 'return',
    'with', 'switch', 'case', 'default', 'throw', 'try', 'catch', 'finally',
    'debugger'})


def simulate(num, maxtok=30, maxnl=0, seed=0, sigma=None, start='Program',
             depth=600, workers=4, layer2=None):
    """random deep derivations (tlc -simulate); -> (TLCResult, sentences
    deduplicated by token string)"""
    mc, cfg = model_text('sim', start, sigma or ALL_SIGMA, maxtok, maxnl,
                         layer2=layer2)
    r = run_tlc('MC_sim', cfg='MC_sim.cfg', cfg_text=cfg,
                modules={'MC_sim': mc}, workers=workers, heap='4g',
                simulate=num, depth=depth, seed=seed,
                extra=('-continue',) if layer2 else ())
    sents = {}
    for s in parse_lines(r.lines, theme='sim'):
        sents.setdefault(s.key(), s)
    return r, list(sents.values())


# implementation models that extend the derivation machine: module, the
# invariants TLC checks on it, and the Emit invariant that also prints what
# the model says about the sentence
LAYER2 = {
    'slash': ('SlashImpl', ['SlashDecisionsOK'], 'EmitSlash'),
    'asi': ('AsiImpl', ['AsiOK'], 'EmitAsi'),
}


def model_text(name, start, sigma, maxtok, maxnl, relax=(), layer2=None):
    module, invs, emit = LAYER2[layer2] if layer2 else ('ES5Grammar', [],
                                                        'Emit')
    mc = ('---- MODULE MC_%s ----\nEXTENDS %s\nSigmaDef == {%s}\n'
          'RelaxDef == {%s}\n====\n' % (
              name, module, ', '.join(json.dumps(s) for s in sigma),
              ', '.join(json.dumps(s) for s in relax)))
    cfg = ('SPECIFICATION Spec\nCONSTANTS\n Sigma <- SigmaDef\n'
           ' MaxTok = %d\n MaxNL = %d\n Start = %s\n Relax <- RelaxDef\n'
           'INVARIANT TypeOK\nINVARIANT NeedOK\nINVARIANT Balanced\n'
           % (maxtok, maxnl, json.dumps(start)))
    cfg += ''.join('INVARIANT %s\n' % i for i in invs + [emit])
    return mc, cfg


def run_theme(name, tier='quick', maxtok=None, maxnl=None, workers=2,
              sigma=None, start=None, relax=(), layer2=None):
    st, sg, bounds = THEMES[name]
    st = start or st
    sg = sigma or sg
    mt, mn = bounds[tier]
    if maxtok is not None:
        mt = maxtok
    if maxnl is not None:
        mn = maxnl
    mc, cfg = model_text(name, st, sg, mt, mn, relax, layer2)
    # -continue: a violated Layer 2 invariant is a finding about the
    # modelled implementation, the sentences are still all wanted
    r = run_tlc('MC_' + name, cfg='MC_%s.cfg' % name, cfg_text=cfg,
                modules={'MC_' + name: mc}, workers=workers, heap='6g',
                extra=('-continue',) if layer2 else ())
    if r.violated and not (layer2 and r.violated in LAYER2[layer2][1]):
        raise MachineryError('ES5Grammar invariant %s violated in theme %s'
                             % (r.violated, name))
    sents = parse_lines(r.lines, theme=name)
    return r, sents


def run_themes(names, tier='quick', rep=None, overrides=None, jobs=6):
    """-> {theme: [Sentence]}; checks that the spec grammar is unambiguous
    (one tree per token string) - DESIGN 3.2 sanity obligation."""
    overrides = overrides or {}
    out = {}
    if tier != 'quick':
        jobs = min(jobs, 4)     # thorough themes need a 6 GB heap each

    def one(n):
        return n, run_theme(n, tier, **overrides.get(n, {}))
    with ThreadPoolExecutor(max_workers=jobs) as ex:
        for n, (r, sents) in ex.map(one, names):
            if rep is not None:
                rep.add_tlc(r)
                rep.notes.setdefault('themes', {})[n] = {
                    'sentences': len(sents), 'states': r.states,
                    'tlc_wall_s': round(r.wall, 1)}
            seen = {}
            for s in sents:
                k = s.key()
                b = s.bracketed()
                if k in seen and seen[k] != b:
                    raise MachineryError(
                        'specification grammar is ambiguous in theme %s: '
                        '%s has trees %s and %s' % (n, s.abstract(),
                                                    seen[k], b))
                seen[k] = b
            out[n] = sents
    return out


if __name__ == '__main__':
    name = sys.argv[1]
    tier = sys.argv[2] if len(sys.argv) > 2 else 'quick'
    mt = int(sys.argv[3]) if len(sys.argv) > 3 else None
    r, sents = run_theme(name, tier, maxtok=mt, workers=4)
    print(name, tier, 'states', r.states, 'sentences', len(sents),
          'wall %.1f' % r.wall)
    for s in sents[:: max(1, len(sents) // 12)]:
        print('  ', s.abstract(), '   ', s.bracketed())


def compositions(themes, rng, tier, names=None, chunk=10, twins=True):
    """Longer programs made of the short derived ones (sentence.compose):
    (a) every explicitly ended sentence of <= 8 tokens  ("atom") appears in
        two seeded shuffles cut into programs of `chunk` atoms - state that a
        printer or lexer carries from one statement to the next is exercised;
    (b) "twins": an atom with exactly one token of a spelling pool class,
        twice in one program with two spellings that share their first or
        last character but differ otherwise (every ordered pair) - decisions
        that depend on more than the adjoining characters.
    -> [(Sentence, {token index: spelling} or None)]"""
    from sentence import compose, ends_explicitly
    from concretise import POOLS
    atoms = {}
    for n in (names or sorted(themes)):
        for s in themes[n]:
            if 1 <= len(s.tokens) <= 8 and ends_explicitly(s) and \
                    s.raw[0][0][:2] == ['(', 'ES5Program'] and \
                    not any(t.nl for t in s.tokens):
                atoms.setdefault(s.key(), s)
    atoms = [atoms[k] for k in sorted(atoms)]
    out = []
    for rnd in range(2):
        order = atoms[:]
        rng.shuffle(order)
        for i in range(0, len(order), chunk):
            part = order[i:i + chunk]
            if len(part) > 1:
                out.append((compose(part), None))
    if twins:
        rich = POOLS['rich']
        for a in atoms:
            if len(a.tokens) > 4:
                continue
            for cls in ('NUM', 'ID', 'IDN'):
                slots = [t for t in a.tokens if t.cls == cls]
                if len(slots) != 1:
                    continue
                t = slots[0]
                pool = rich[cls]
                for s1 in pool:
                    for s2 in pool:
                        if s1 != s2 and (s1[-1] == s2[-1] or
                                         s1[0] == s2[0]) \
                                and (tier != 'quick' or rng.random() < 0.34):
                            out.append((compose([a, a]),
                                        {t.idx: s1,
                                         t.idx + len(a.tokens): s2}))
    return out


SUITE_PLUGIN = '''
import json, os
texts = []
def pytest_configure(config):
    from calmjs.parse.lexers import es5 as lx
    orig = lx.Lexer.input
    def input(self, text):
        if isinstance(text, str):
            texts.append(text)
        return orig(self, text)
    lx.Lexer.input = input
def pytest_unconfigure(config):
    with open(os.environ['CORPUS_OUT'], 'w') as f:
        json.dump(sorted(set(texts)), f)
'''


def suite_corpus(rep=None):
    """The texts the repository's own test suite feeds to the lexer (DESIGN
    4.5): the unedited suite is run once against a copy of the scratch build
    with a recorder on Lexer.input; what it parsed becomes one more source of
    inputs for the checks that need no derivation (C06, C12, C16, and the
    re-parse clauses of C01 / C02).  -> sorted list of distinct texts (empty
    if the suite cannot be run: then the checks simply do without)."""
    import shutil
    import subprocess
    import sys
    from common import build_scratch, tmp_dir, REPO
    build_scratch()
    d = tmp_dir('suite')
    out = os.path.join(d, 'texts.json')
    if os.path.exists(out):
        return json.load(open(out))
    src = os.path.join(d, 'src')
    shutil.copytree(os.path.join(REPO, 'src'), src, ignore=shutil.ignore_patterns(
        '__pycache__', '*.pyc', 'lextab_*', 'yacctab_*', 'parser.out'))
    with open(os.path.join(d, 'verif_corpus_plugin.py'), 'w') as f:
        f.write(SUITE_PLUGIN)
    env = dict(os.environ, CORPUS_OUT=out, PYTHONPATH=src + os.pathsep + d,
               PYTHONDONTWRITEBYTECODE='1')
    p = subprocess.run([sys.executable, '-m', 'pytest', '-q', '-x',
                        '-p', 'no:cacheprovider', '-p', 'verif_corpus_plugin',
                        'calmjs'], cwd=src, env=env, stdout=subprocess.PIPE,
                       stderr=subprocess.STDOUT, timeout=900)
    texts = json.load(open(out)) if os.path.exists(out) else []
    if rep is not None:
        rep.notes['suite_corpus'] = {
            'texts': len(texts),
            'pytest_tail': p.stdout.decode('utf-8', 'replace')[-120:].strip()}
    return texts


# wrapper programs: two small themes, so that the derivation stays cheap
WRAP_THEMES = [
    (['ID', '(', ')', 'function', '{', '}', ';'], 10,
     ['ID ( function ( ) { } ) ;',            # callback argument
      '( function ( ) { } ) ( ) ;',           # immediately invoked
      'function ID ( ) { }']),                # declaration
    (['ID', '=', 'function', '(', ')', '{', '}', ';'], 8,
     ['ID = function ( ) { } ;']),            # assigned
]


def templates(rep=None):
    """the wrapper programs, derived by the machine like everything else;
    a wrapper inside a wrapper gives the deeper ones (sentence.embed)"""
    from sentence import embed
    got = {}
    for j, (sigma, maxtok, wanted) in enumerate(WRAP_THEMES):
        mc, cfg = model_text('wrap%d' % j, 'Program', sigma, maxtok, 0)
        r = run_tlc('MC_wrap%d' % j, cfg='MC_wrap%d.cfg' % j, cfg_text=cfg,
                    modules={'MC_wrap%d' % j: mc}, workers=4, heap='4g')
        if rep is not None:
            rep.add_tlc(r)
        for s in parse_lines(r.lines, theme='wrap'):
            if s.abstract() in wanted:
                got[s.abstract()] = s
        missing = [t for t in wanted if t not in got]
        if missing:
            raise MachineryError('wrapper templates not derived: %r'
                                 % missing)
    base = [got[t] for _, _, w in WRAP_THEMES for t in w]
    # callback inside a declaration, immediately invoked inside a callback
    return base + [embed(base[2], base[0]), embed(base[0], base[1])]


def embeddings(sents, tmpls, rng, per_sentence=1):
    """each sentence inside the function body of `per_sentence` rotating
    wrapper templates (sentence.embed) -> [Sentence]"""
    from sentence import embed
    out = []
    for j, s in enumerate(sents):
        if s.raw[0][0][:2] != ['(', 'ES5Program']:
            continue
        for k in range(per_sentence):
            t = tmpls[(j + k * 3 + rng.randrange(len(tmpls))) % len(tmpls)]
            out.append(embed(t, s))
    return out
