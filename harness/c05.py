# -*- coding: utf-8 -*-
"""
C05 - every `/` is read as division or regex start as the grammar dictates.

The derivation machine dictates the class of every `/`-bearing token (DIV,
DIVEQUAL, REGEX) of each sentence of the slash themes.  Each sentence is
concretised with varied layout around the slash (white space kinds,
comments, line breaks where the derivation has one) and fed to the real
parser with a recording lexer: the token type the parser-driven lexer chose
at every slash offset and the resulting tree must be the dictated ones.
"""
import gen
import impl
import asi_slash as core
from common import Report, build_scratch
from concretise import concretise, GAP_PLAIN, GAP_BREAK
from sentence import spec_tree

THEMES = ['slash', 'slash2', 'slash3']

RULE = ('every sentence of the slash themes that holds a `/`, `/=` or regex '
        'token, concretised with rotating layout kinds in the gap before the '
        'slash token (white space kinds, comment; line-break kinds where the '
        'derivation has a line break); also one variant with rich spellings. '
        'Non-trivial = the sentence holds a slash token; distinct by (token '
        'string, line-break flags).')


def pred(sent, i):
    """abstract predecessor of token i: class and the construct it closes"""
    if i == 0:
        return 'START'
    p = sent.tokens[i - 1]
    c = p.cls
    if c in (')', '}', ']'):
        return '%s@%s' % (c, p.owner.kind if p.owner is not None else '?')
    if p.role == 'postfix':
        return c + '@postfix'
    if c == 'IDN':
        return 'propname'
    return core.next_class(c)


DEEP_SIGMA = ['ID', 'REGEX', '/', '(', ')', '{', '}', 'if', 'while', 'for',
              'function', ';', '=', '++', ',', 'return', 'NUM', '.', 'IDN']


def main(tier, seed, replay=None):
    rep = Report('C05', 'model_checking', tier, seed)
    rep.assumptions = [
        'layout kinds stand for all layouts of their class',
        'the token type recorded last for an offset is the lexer\'s decision '
        '(the parser may make it re-read a `/` as a regex)']
    build_scratch()
    themes = gen.run_themes(THEMES, tier, rep, jobs=6, overrides={
        n: {'layer2': 'slash'} for n in THEMES})
    # deep random derivations (tlc -simulate): slashes inside function
    # bodies inside call / grouping / header parentheses
    sr, deep = gen.simulate(4000 if tier == 'quick' else 15000, maxtok=18,
                            maxnl=1, seed=seed + 7, sigma=DEEP_SIGMA,
                            workers=4, layer2='slash')
    rep.add_tlc(sr)
    themes['deep'] = sorted((s for s in deep
                             if any(t.cls in core.SLASHY for t in s.tokens)),
                            key=lambda s: s.key())
    rep.notes['deep_sentences'] = len(themes['deep'])
    # the slash sentences once more inside function bodies that stand in
    # call arguments, groupings, assignments, declarations (sentence.embed)
    import random
    rng = random.Random(seed)
    tmpls = gen.templates(rep)
    pool = [s for n in THEMES for s in themes[n]
            if any(t.cls in core.SLASHY for t in s.tokens)
            and hash(s.key()) % (4 if tier == 'quick' else 2) == seed % 2]
    themes['embedded'] = gen.embeddings(pool, tmpls, rng, 1)
    rep.notes['embedded_sentences'] = len(themes['embedded'])
    rep.mark('generated')
    plain = [k for k in core.PLAIN_KINDS]
    brk = core.BREAK_KINDS
    work = []
    meta = []
    distinct = set()
    n = 0
    for name in THEMES + ['deep', 'embedded']:
        for s in themes[name]:
            idx = [t.idx for t in s.tokens if t.cls in core.SLASHY]
            if not idx:
                continue
            if tier != 'quick' and hash(s.key()) % 4 != seed % 4:
                continue        # (thorough themes are ~15 times larger)
            n += 1
            distinct.add(s.key())
            variants = 2 if tier == 'quick' else 3
            for v in range(variants):
                gaps = {}
                kinds = {}
                for j, i in enumerate(idx):
                    t = s.tokens[i]
                    if t.nl:
                        k = brk[(n + v * 5 + j + seed) % len(brk)]
                        gaps[i] = GAP_BREAK[k]
                    elif i > 0:
                        k = plain[(n + v + j + seed) % len(plain)]
                        gaps[i] = GAP_PLAIN[k]
                    else:
                        k = 'sp'
                    kinds[i] = k
                    # and the gap after the slash token
                    if i + 1 < len(s.tokens) and not s.tokens[i + 1].nl \
                            and (i + 1) not in idx:
                        k2 = plain[(n + v + j + 1) % len(plain)]
                        gaps[i + 1] = GAP_PLAIN[k2]
                text = concretise(s, seed=seed + n + v,
                                  pools='rich' if v % 2 else 'basic',
                                  gaps=gaps, brk=brk[(n + v) % len(brk)])
                ds = core.dictated_slashes(s)
                # SlashImpl.tla: <<token index, first, final, dictated>>
                mod = []
                for m in (s.model or []):
                    if m[2] == 'div-after-function-declaration':
                        mod.append([s.tokens[m[0] - 1].start, 'div', 'div'])
                        break       # the rest is lexed differently anyway
                    mod.append([s.tokens[m[0] - 1].start, m[1], m[2]])
                work.append((text, spec_tree(s), ds, mod))
                meta.append((s, text, kinds, [t.start for t in s.tokens]))
    res3 = impl.pmap(core.judge_with_model, work, chunk=400)
    rep.mark('judged')
    res = []
    drift = 0
    modelwrong = 0
    for w, r3 in zip(work, res3):
        if r3 and r3[0] == 'timeout':
            res.append(r3)
            continue
        res.append(r3[0])
        if r3[1]:
            drift += 1
            if drift <= 3:
                rep.notes.setdefault('drift_examples', []).append(
                    {'text': w[0], 'model': w[3], 'code': r3[2]})
        if any(m[2] == 'wrong' for m in w[3]):
            modelwrong += 1
    # spec -> code conformance of SlashImpl.tla (reported, not a verdict)
    rep.notes['drift_model_vs_code'] = drift
    rep.notes['model_says_wrong_reading'] = modelwrong
    for (s, text, kinds, starts), r in zip(meta, res):
        rep.count('evaluations')
        if r is None:
            continue
        idx = [t.idx for t in s.tokens if t.cls in core.SLASHY]
        # the slash the disagreement is about: the one at the reported
        # offset, else the first one
        i = idx[0]
        got = r[0]
        if r[0] == 'slash':
            i = starts.index(r[1]) if r[1] in starts else idx[0]
            got = r[3] or 'no-token'
        elif r[0] == 'syntax':
            pos = impl.error_position(r[1])
            if pos:
                off = impl.linecol_to_offset(text, *pos)
                cands = [j for j in idx if starts[j] <= (off or 0)]
                if cands:
                    i = cands[-1]
            got = 'reject'
        elif r[0] == 'tree':
            got = 'tree'
        want = core.SLASH_TYPE[s.tokens[i].cls]
        k = kinds.get(i, 'sp')
        sig = 'C05 slash pred=%s gap=%s expected=%s got=%s' % (
            pred(s, i), core.GAP_CLASS.get(k, k), want, got)
        # the one named deviation (known finding): a regex that starts the
        # statement after a function DECLARATION; everything from that
        # slash on is lexed differently
        first_bad = [j for j in idx if s.tokens[j].cls == 'REGEX' and j > 0
                     and s.tokens[j - 1].cls == '}'
                     and s.tokens[j - 1].owner is not None
                     and s.tokens[j - 1].owner.kind == 'FuncDecl']
        if first_bad and i >= first_bad[0]:
            sig = 'C05 slash cause=regex-after-function-declaration'
        rep.violation(sig, 'parse(%r): the `/` after %s must be %s; got %s'
                      % (text, pred(s, i), want, r[1:] if r[0] != 'tree'
                         else r[2]),
                      {'abstract': s.abstract(), 'text': text,
                       'dictated': s.bracketed(), 'outcome': list(map(str, r))})
    rep.cov['distinct_nontrivial'] = len(distinct)
    for name in THEMES:
        c = [s for s in themes[name]
             if sum(t.cls in core.SLASHY for t in s.tokens) >= 2]
        if c:
            s = c[len(c) // 3]
            rep.sample({'tokens': s.abstract(), 'text': concretise(s, seed=seed),
                        'dictated_slashes': [x[1] for x in
                                             core.dictated_slashes(s)],
                        'dictated_tree': s.bracketed()})
    return rep.finish(RULE)
