# -*- coding: utf-8 -*-
"""
Running the implementation (scratch build) on many cases in worker processes.
The scratch build is imported in the parent before the pool forks.
"""
import gc
import multiprocessing as mp
import os
import re
import signal

from common import build_scratch, NCPU
import project

_WORK = None
_FN = None


class CaseTimeout(Exception):
    pass


def _alarm(signum, frame):
    raise CaseTimeout()


def guarded(fn, arg, seconds=10):
    """run fn(arg) with a CPU-time guard of this process (pure Python loops
    are interruptible by the signal); CPU time, not wall-clock time, so that
    a loaded machine cannot turn a slow case into a verdict"""
    old = signal.signal(signal.SIGVTALRM, _alarm)
    signal.setitimer(signal.ITIMER_VIRTUAL, seconds)
    try:
        return fn(arg)
    except CaseTimeout:
        return ('timeout', 'no result within %ss of CPU time' % seconds)
    finally:
        signal.setitimer(signal.ITIMER_VIRTUAL, 0)
        signal.signal(signal.SIGVTALRM, old)


_SECONDS = 10


def _run_range(rng):
    lo, hi = rng
    if _SECONDS is None:
        return [_FN(_WORK[i]) for i in range(lo, hi)]
    return [guarded(_FN, _WORK[i], _SECONDS) for i in range(lo, hi)]


def pmap(fn, work, chunk=200, procs=None, seconds=10):
    """ordered map of fn over work using forked workers; seconds = CPU-time
    guard per case (None: no guard, for work units that are whole batches)"""
    global _WORK, _FN, _SECONDS
    _SECONDS = seconds
    build_scratch()
    work = list(work)
    _WORK, _FN = work, fn
    procs = procs or NCPU
    if len(work) <= chunk or procs <= 1:
        return _run_range((0, len(work)))
    ranges = [(i, min(len(work), i + chunk))
              for i in range(0, len(work), chunk)]
    ctx = mp.get_context('fork')
    gc.collect()
    gc.freeze()         # keep copy-on-write pages of the parent untouched
    try:
        with ctx.Pool(min(procs, len(ranges))) as pool:
            parts = pool.map(_run_range, ranges, 1)
    finally:
        gc.unfreeze()
    out = []
    for p in parts:
        out.extend(p)
    _WORK = _FN = None
    return out


# ---------------------------------------------------------------------------
# standard workers

def parse_outcome(text, with_comments=False):
    """-> ('ok', projected tree) | ('syntax', message, type name) |
          ('exc', repr, type name)"""
    from calmjs.parse.parsers.es5 import parse
    from calmjs.parse.exceptions import ECMASyntaxError
    try:
        tree = parse(text, with_comments=with_comments)
    except ECMASyntaxError as e:
        return ('syntax', str(e), type(e).__name__)
    except CaseTimeout:
        raise
    except Exception as e:
        return ('exc', repr(e), type(e).__name__)
    try:
        return ('ok', project.project(tree))
    except project.ProjectionError as e:
        return ('badtree', str(e), 'ProjectionError')


RE_POS = re.compile(r' at (\d+):(\d+)')


def error_position(msg):
    m = RE_POS.search(msg)
    return (int(m.group(1)), int(m.group(2))) if m else None


def linecol_to_offset(text, line, col):
    """ES5 line terminators: LF, CR, CRLF (one), LS, PS; 1-based line/col"""
    cur = 1
    i = 0
    n = len(text)
    while cur < line and i < n:
        ch = text[i]
        if ch == '\r' and i + 1 < n and text[i + 1] == '\n':
            i += 2
            cur += 1
        elif ch in '\n\r\u2028\u2029':
            i += 1
            cur += 1
        else:
            i += 1
    if cur != line:
        return None
    return i + col - 1


def offset_to_linecol(text, off):
    line = 1
    start = 0
    i = 0
    while i < off:
        ch = text[i]
        if ch == '\r' and i + 1 < len(text) and text[i + 1] == '\n':
            if i + 1 >= off:
                break
            i += 2
            line += 1
            start = i
        elif ch in '\n\r\u2028\u2029':
            i += 1
            line += 1
            start = i
        else:
            i += 1
    return line, off - start + 1
