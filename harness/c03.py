# -*- coding: utf-8 -*-
"""
C03 - the parser accepts exactly the ES5 grammar and builds the dictated tree.

spec -> code: every sentence TLC derives from spec/ES5Grammar.tla (all themes)
is concretised and parsed; the projected real tree must equal the dictated
one.  Negative side: for each theme alphabet every token string up to length
n that TLC did NOT derive must be rejected; single-token mutations of derived
sentences get their verdict from the recogniser spec/ES5Accept.tla.
"""
import itertools
import random
import time
from concurrent.futures import ThreadPoolExecutor

import accept
import gen
import impl
import project
from common import Report, build_scratch
from concretise import concretise
from sentence import spec_tree, Sentence

THEMES = ['prec', 'prec2', 'lhs', 'stmt', 'iter', 'ctrl', 'lit', 'slash',
          'noin1', 'noin2', 'acc', 'switch']
NEG_THEMES = ['prec', 'prec2', 'lhs', 'stmt', 'iter', 'ctrl', 'lit', 'slash']

# near-sentences: (theme sub-alphabet, lifted rule, {tier: MaxTok}) - the
# strings derivable with the rule lifted but not in the ES5 grammar must be
# rejected (ES5Grammar.tla, constant Relax)
RELAXED = [
    ('nobf', 'Program', ['ID', ';', 'function', '(', ')', '{', '}', '.',
                         'IDN', ':', ','], {'quick': 8, 'thorough': 9}),
    ('noin', 'Program', ['ID', ';', 'for', '(', ')', 'in', 'var', '=', '?',
                         ':', '<', '||'], {'quick': 9, 'thorough': 11}),
    ('lhs', 'Program', ['ID', 'NUM', ';', '=', '+=', '++', '--', '+', '!',
                        '(', ')', '.', 'IDN', 'new', '?', ':'],
     {'quick': 5, 'thorough': 6}),
    ('emptyasi', 'Program', ['ID', ';', 'if', 'else', 'while', 'for', '(',
                             ')', '{', '}', 'do'],
     {'quick': 6, 'thorough': 8}, 1),
    ('forasi', 'Program', ['ID', ';', 'for', '(', ')', '{', '}', 'var'],
     {'quick': 7, 'thorough': 9}, 1),
]

RULE = ('positive: every sentence of <= MaxTok tokens derivable in each '
        'theme sub-grammar of ES5Grammar.tla, one spelling per class '
        '(rotating with the seed); negative: all strings over each theme '
        'alphabet up to length n not derived by TLC, plus single-token '
        'deletions/insertions/replacements of derived sentences with the '
        'verdict decided by ES5Accept.tla.  Non-trivial = at least two '
        'tokens; distinct by token-class string.')


def locate(sent, text, msg):
    """index of the token at which the reported error sits, or None"""
    pos = impl.error_position(msg)
    if not pos:
        return None
    off = impl.linecol_to_offset(text, *pos)
    for t in sent.tokens:
        if t.start == off:
            return t.idx
    return None


def sig_reject(sent, text, msg):
    i = locate(sent, text, msg)
    if i is None:
        kind = msg.split(' at ')[0].split("'")[0].strip().replace(' ', '-')
        return 'C03 reject derivable msg=%s' % kind
    t = sent.tokens[i]
    prev = sent.tokens[i - 1] if i else None
    return 'C03 reject derivable tok=%s%s after=%s' % (
        t.cls, '[LT]' if t.nl else '',
        (prev.cls + ('/' + prev.role if prev.role else '')) if prev else 'START')


def sig_tree(diff):
    path, a, b = diff
    tail = path.split('/')[-1]
    a = a if len(a) < 24 else a[:24]
    b = b if len(b) < 24 else b[:24]
    if tail.endswith('.value'):
        return 'C03 tree leaf-value at=%s' % tail
    return 'C03 tree at=%s spec=%s got=%s' % (tail, a, b)


def _positive(case):
    text, exp = case
    out = impl.parse_outcome(text)
    if out[0] == 'ok':
        d = project.first_diff(exp, out[1])
        if d is None:
            return None
        return ('tree', d, project.render(out[1]))
    return (out[0], out[1])


def _negative(text):
    out = impl.parse_outcome(text)
    if out[0] == 'ok':
        return ('accepted', project.render(out[1]))
    if out[0] in ('syntax', 'exc'):
        # not accepted; whether the exception type is right is C12's business
        return None
    return (out[0], out[1])


def text_of_classes(classes, seed, nls=()):
    s = Sentence([['T', c, ''] for c in classes], nls)
    return s, concretise(s, seed=seed)


ALIASING = {'REGEX', 'GET', 'SET', 'IDN'}


def decidable(cls):
    """class strings whose text has exactly one lexical reading"""
    return sum(1 for c in cls if c in ('/', '/=')) <= 1


def judge_accepted(rep, bad, seed, tag=''):
    """
    bad: [(classes, text, outcome[, viable])] - strings outside the generated
    language that the parser did not reject.  The recogniser (which knows
    that an IdentifierName position takes reserved words) has the last word;
    if it derives the string the trees are compared instead.
    """
    if not bad:
        return
    rec = accept.recognise([(list(b[0]), list(b[3]) if len(b) > 3 else [])
                            for b in bad], rep=rep)
    for b, a in zip(bad, rec):
        cls, text, r = b[0], b[1], b[2]
        if r[0] != 'accepted':
            rep.violation('C03 escape exc=%s' % r[0],
                          'parse(%r): %s' % (text, r[1]),
                          {'classes': list(cls), 'text': text, 'got': r[1]})
            continue
        if a['accepted']:
            sent = a['sentence']
            src, _ = text_of_classes(cls, seed)
            for t, u in zip(sent.tokens, src.tokens):
                t.text = u.text
            out = impl.parse_outcome(text)
            d = project.first_diff(spec_tree(sent), out[1])
            if d:
                rep.violation(sig_tree(d), 'parse(%r) builds %s, dictated %s'
                              % (text, project.render(out[1]),
                                 sent.bracketed()),
                              {'classes': list(cls), 'text': text,
                               'dictated': sent.bracketed(),
                               'got': project.render(out[1])})
            continue
        v = a['viable']
        sig = 'C03 accept notDerivable tok=%s after=%s' % (
            cls[v] if v < len(cls) else 'EOF', cls[v - 1] if v else 'START')
        if tag:
            # near-sentences: name the lifted rule and how the text starts
            if tag == 'rule=nobf':
                js = [j for j in range(min(v, len(cls) - 1) + 1)
                      if cls[j] == 'function']
                j = js[-1] if js else 0
                sig = 'C03 accept notDerivable %s head=%s' % (
                    tag, '-'.join(cls[j:j + 2]))
            else:
                sig += ' ' + tag
        rep.violation(sig, 'parse(%r) -> %s although %s is not derivable'
                      % (text, r[1], ' '.join(cls)),
                      {'classes': list(cls), 'text': text, 'got': r[1],
                       'viable_prefix': v})


def main(tier, seed, replay=None):
    rep = Report('C03', 'model_checking', tier, seed)
    rep.assumptions = [
        'outcome depends on token classes, not spellings (tested by seed '
        'rotation of the pools, not proved)',
        'early errors are out of scope; function declarations are statements']
    build_scratch()
    if replay:
        return run_replay(rep, replay)
    t0 = time.time()
    themes = gen.run_themes(THEMES, tier, rep, jobs=8)
    rep.notes['t_generate'] = round(time.time() - t0, 1)

    # ---- positive ------------------------------------------------------
    work = []
    meta = []
    distinct = set()
    for name in THEMES:
        for s in themes[name]:
            text = concretise(s, seed=seed)
            work.append((text, spec_tree(s)))
            meta.append((s, text))
            if len(s.tokens) >= 2:
                distinct.add(tuple(s.classes()))
    res = impl.pmap(_positive, work)
    for (s, text), r in zip(meta, res):
        rep.count('evaluations')
        if r is None:
            continue
        case = {'theme': s.theme, 'abstract': s.abstract(), 'text': text,
                'dictated': s.bracketed()}
        if r[0] == 'tree':
            case['got'] = r[2]
            case['diff'] = list(r[1])
            rep.violation(sig_tree(r[1]),
                          'parse(%r) builds %s, the grammar dictates %s'
                          % (text, r[2], s.bracketed()), case)
        elif r[0] == 'syntax':
            case['error'] = r[1]
            rep.violation(sig_reject(s, text, r[1]),
                          'parse(%r) raises %r but the text is derivable: %s'
                          % (text, r[1], s.bracketed()), case)
        else:
            case['error'] = r[1]
            rep.violation('C03 reject derivable exc=%s' % r[0],
                          'parse(%r): %s' % (text, r[1]), case)
    for name in THEMES[:4]:
        s = themes[name][len(themes[name]) // 2]
        rep.sample({'theme': name, 'tokens': s.abstract(),
                    'text': concretise(s, seed=seed),
                    'dictated_tree': s.bracketed()})
    rep.notes['positive_sentences'] = len(work)
    rep.notes['t_positive'] = round(time.time() - t0, 1)

    # ---- negative: complement of the language over each alphabet ---------
    # Decided at class level, so only classes with one lexical reading are
    # enumerated: REGEX / GET / SET / IDN alias other classes textually, and
    # two slash-bearing tokens could pair up into a regular expression.
    n = 3 if tier == 'quick' else 4
    neg = []
    negmeta = []
    for name in NEG_THEMES:
        sigma = [c for c in gen.THEMES[name][1] if c not in ALIASING]
        lang = {tuple(s.classes()) for s in themes[name]
                if len(s.tokens) <= n}
        for k in range(1, n + 1):
            for cls in itertools.product(sigma, repeat=k):
                if cls in lang or not decidable(cls):
                    continue
                s, text = text_of_classes(cls, seed)
                neg.append(text)
                negmeta.append((name, cls, text))
    res = impl.pmap(_negative, neg, chunk=500)
    bad = []
    for (name, cls, text), r in zip(negmeta, res):
        rep.count('evaluations')
        if r is not None:
            bad.append((list(cls), text, r))
    rep.notes['negative_strings'] = len(neg)
    rep.notes['t_negative'] = round(time.time() - t0, 1)
    judge_accepted(rep, bad, seed)
    rep.sample({'negative_example': neg[len(neg) // 3]})

    # ---- near-sentences: one rule of the grammar lifted -------------------
    relaxed_counts = {}

    def lexkey(s):
        # IdentifierName positions are spelt as plain identifiers here, so
        # at the level of the text IDN and ID are the same thing
        return tuple('ID' if c == 'IDN' else c for c in s.classes())

    def gen_pair(spec):
        rule, start, sigma, bounds = spec[:4]
        mnl = spec[4] if len(spec) > 4 else 0
        mt = bounds[tier]
        r0, strict = gen.run_theme('stmt', tier, maxtok=mt, sigma=sigma,
                                   start=start, workers=2, maxnl=mnl)
        r1, lifted = gen.run_theme('stmt', tier, maxtok=mt, sigma=sigma,
                                   start=start, relax=[rule], workers=2,
                                   maxnl=mnl)
        return r0, strict, r1, lifted
    with ThreadPoolExecutor(max_workers=len(RELAXED)) as ex:
        pairs = list(ex.map(gen_pair, RELAXED))
    for spec, (r0, strict, r1, lifted) in zip(RELAXED, pairs):
        rule = spec[0]
        rep.add_tlc(r0)
        rep.add_tlc(r1)
        lang = {(lexkey(s), s.key()) for s in strict}
        near = {}
        for s in lifted:
            k = (lexkey(s), s.key())
            if k in lang:
                continue
            k = lexkey(s)
            if decidable(k) and not (set(k) & ALIASING):
                for t in s.tokens:
                    if t.cls == 'IDN':
                        t.cls = 'ID'
                near.setdefault((k, s.key()), s)
        relaxed_counts[rule] = {'strict': len(lang), 'near': len(near)}
        cands = []
        for s in near.values():
            text = concretise(s, seed=seed)
            cands.append((s.classes(), text,
                          [t.idx + 1 for t in s.tokens if t.nl]))
        res = impl.pmap(_negative, [c[1] for c in cands], chunk=500)
        bad = []
        for (cls, text, nls), r in zip(cands, res):
            rep.count('evaluations')
            if r is not None:
                bad.append((cls, text, r, nls))
        judge_accepted(rep, bad, seed, tag='rule=' + rule)
        if near:
            rep.sample({'near_sentence_rule_lifted': rule,
                        'text': cands[len(cands) // 2][1]})
    rep.notes['near_sentences'] = relaxed_counts
    rep.notes['t_near'] = round(time.time() - t0, 1)

    # ---- single-token mutations, verdict by the recogniser ---------------
    rng = random.Random(seed)
    nmut = 160 if tier == 'quick' else 4000
    pool = [s for name in THEMES for s in themes[name] if len(s.tokens) >= 3]
    muts = []
    while len(muts) < nmut:
        s = rng.choice(pool)
        cls = s.classes()
        sigma = gen.THEMES[s.theme][1]
        op = rng.choice('dir')
        i = rng.randrange(len(cls))
        if op == 'd':
            m = cls[:i] + cls[i + 1:]
        elif op == 'i':
            m = cls[:i] + [rng.choice(sigma)] + cls[i:]
        else:
            m = cls[:i] + [rng.choice(sigma)] + cls[i + 1:]
        if m and decidable(m) and not (set(m) & ALIASING):
            muts.append(m)
    rec = accept.recognise([(m, []) for m in muts], rep=rep)
    pos_idx = [i for i, a in enumerate(rec) if a['accepted']]
    neg_idx = [i for i, a in enumerate(rec) if not a['accepted']]
    pwork = []
    for i in pos_idx:
        sent = rec[i]['sentence']
        src, text = text_of_classes(muts[i], seed)
        for t, u in zip(sent.tokens, src.tokens):
            t.text, t.start = u.text, u.start
        pwork.append((text, spec_tree(sent)))
    pres = impl.pmap(_positive, pwork)
    for i, w, r in zip(pos_idx, pwork, pres):
        rep.count('evaluations')
        rep.count('traces_validated_against_impl')
        if r is None:
            continue
        s = rec[i]['sentence']
        text = w[0]
        case = {'abstract': ' '.join(muts[i]), 'text': text,
                'dictated': s.bracketed(), 'got': r[1] if r[0] != 'tree'
                else r[2]}
        if r[0] == 'tree':
            rep.violation(sig_tree(r[1]), 'parse(%r) builds %s, dictated %s'
                          % (text, r[2], s.bracketed()), case)
        elif r[0] == 'syntax':
            rep.violation(sig_reject(s, text, r[1]),
                          'parse(%r) raises %r but the text is derivable'
                          % (text, r[1]), case)
        else:
            rep.violation('C03 reject derivable exc=%s' % r[0],
                          'parse(%r): %s' % (text, r[1]), case)
    nwork = [text_of_classes(muts[i], seed)[1] for i in neg_idx]
    nres = impl.pmap(_negative, nwork)
    bad = []
    for i, text, r in zip(neg_idx, nwork, nres):
        rep.count('evaluations')
        rep.count('traces_validated_against_impl')
        if r is not None:
            bad.append((muts[i], text, r))
    judge_accepted(rep, bad, seed)
    rep.notes['mutations'] = {'derivable': len(pos_idx),
                              'not_derivable': len(neg_idx)}
    rep.cov['distinct_nontrivial'] = len(distinct)
    return rep.finish(RULE, exhaustive=False)


def run_replay(rep, replay):
    case = replay['case']
    text = case['text']
    out = impl.parse_outcome(text)
    print('replay %r -> %s' % (text, out[:2]))
    print('dictated: %s' % case.get('dictated'))
    return 0
