# -*- coding: utf-8 -*-
"""
C01 - pretty-printed output parses back to the same tree and is a fixpoint.
C20 - pretty output is indented exactly by block depth, one final newline.
(one runner, two entry points: c20.py calls main_for('C20', ...))

Programs come from the ES5Grammar derivation machine (themes subsampled by
tree shape + deep simulate derivations), concretised with rich spellings and
varied source layout; each is parsed and pretty-printed with every
indentation string.  Decided per printed text:
  - by the real parser: re-parse gives a structurally identical tree and
    printing that tree reproduces the text byte for byte (C01)
  - by TLC (PrintTrace.tla, FuseTrace.tla / ES5Lexical.tla) on the text
    aligned to the tokens the derivation dictates: same token sequence, no
    two neighbours fuse under the ES5 lexical grammar, no line break in a
    restricted position (C01: "any conforming parser"), every line that
    starts a token is indented by indent_str x depth, one final newline,
    level back at zero (C20).
"""
import random

import gen
import impl
import printing
import project
from common import Report, build_scratch
from concretise import concretise, layout_variant
from c11 import _freeze

THEMES = ['prec', 'prec2', 'lhs', 'stmt', 'iter', 'ctrl', 'lit', 'acc',
          'switch', 'slash', 'asi2']
INDENTS = ['', ' ', '  ', '\t', '    ']

RULES = {
    'C01': ('TLC-derived programs (11 themes subsampled by tree shape and '
            'by adjacent token-class pair, + simulate), rich spellings, one '
            'plain and one random source layout, plus compositions of the short '
            'programs into longer ones and twins (same statement twice with '
            'two spellings sharing a first / last character), x 5 indentation strings; '
            'each printed text is one PrintTrace record and one re-parse / '
            'fixpoint evaluation.  Non-trivial = at least 3 tokens; distinct '
            'by (source text, indentation string).'),
    'C20': ('same programs as C01 restricted to those with braces, x 5 '
            'indentation strings; PrintTrace indentation / final newline / '
            'level clauses.  Non-trivial = output has an indented line; '
            'distinct by (source text, indentation string).'),
}


_PRINTERS = {}


def _print(case):
    text, want_level = case
    from calmjs.parse.parsers.es5 import parse
    from calmjs.parse.unparsers.es5 import pretty_print, Unparser
    from calmjs.parse.unparsers.es5 import pretty_printer
    from calmjs.parse import rules
    from calmjs.parse.ruletypes import Indent
    try:
        tree = parse(text)
        t1 = project.project(tree)
    except Exception as e:
        return ('noparse', repr(e))
    outs = []
    for ind in INDENTS:
        try:
            out = pretty_print(tree, indent_str=ind)
        except Exception as e:
            outs.append(('print-exc', repr(e)))
            continue
        # the indentation level the printer ends with (same rule set,
        # instrumented only by keeping a reference to its Indentator)
        level = None
        if want_level:
            try:
                handlers = rules.indent(indent_str=ind)()
                inst = handlers['layout_handlers'][Indent].__self__
                again = ''.join(c.text for c in Unparser(
                    rules=(lambda h=handlers: h,))(tree))
                level = inst._level if again == out else None
            except Exception:
                level = None
        # C20 also holds for a printer object that is reused, also after a
        # rendering that was abandoned midway
        reused = None
        if want_level == 'reuse':
            pr = _PRINTERS.get(ind)
            if pr is None:
                pr = _PRINTERS[ind] = pretty_printer(ind)
            try:
                g = pr(tree)
                for _ in range(7):
                    next(g, None)
                del g
                reused = ''.join(c.text for c in pr(tree))
            except Exception as e:
                reused = 'EXC %r' % (e,)
        try:
            tree2 = parse(out)
            t2 = project.project(tree2)
            same = project.first_diff(t1, t2)
            fix = pretty_print(tree2, indent_str=ind) == out
            outs.append(('ok', out, same, fix, level, reused))
        except Exception as e:
            outs.append(('reparse-exc', out, repr(e), None, level, reused))
    return ('ok', t1, outs)


def select(themes, deep, tier):
    """subsample: new tree shape or new adjacent class pair, plus a hash
    sample"""
    seen = set()
    keep = list(deep)
    mod = 40 if tier == 'quick' else 20
    for n in THEMES:
        for s in themes[n]:
            new = False
            for nd in s.nodes:
                t = (nd.kind, tuple(c is None for c in nd.children))
                if t not in seen:
                    seen.add(t)
                    new = True
            cl = s.classes()
            for a, b in zip(cl, cl[1:]):
                if (a, b) not in seen:
                    seen.add((a, b))
                    new = True
            # what follows / precedes a construct: (kind, next token class)
            for nd in s.nodes:
                if nd.last is None:
                    continue
                nxt = cl[nd.last + 1] if nd.last + 1 < len(cl) else 'EOF'
                prv = cl[nd.first - 1] if nd.first else 'START'
                for t in (('follow', nd.kind, nxt), ('lead', nd.kind, prv)):
                    if t not in seen:
                        seen.add(t)
                        new = True
            if new or hash(s.key()) % mod == 0:
                keep.append(s)
    return keep


def main_for(prop, tier, seed, replay=None):
    rep = Report(prop, 'model_checking', tier, seed)
    rep.assumptions = [
        'expected tokens, roles, depths and restricted positions come from '
        'the derivation; the alignment is plain sequential string matching',
        'character classification for ES5Lexical.tla is done by the harness',
        'programs the parser rejects or reads differently from the '
        'derivation are skipped here (C03 / C04 / C05)']
    build_scratch()
    rng = random.Random(seed)
    themes = gen.run_themes(THEMES, tier, rep, jobs=11)
    r, deep = gen.simulate(1500 if tier == 'quick' else 8000,
                           maxtok=30 if tier == 'quick' else 40, maxnl=1,
                           seed=seed + 11, workers=8)
    rep.add_tlc(r)
    keep = select(themes, deep, tier)
    if prop == 'C20':
        keep = [s for s in keep if any(t.cls == '{' for t in s.tokens)]
    rep.mark('generated')
    work = []
    sents = []
    for j, s in enumerate(keep):
        for v in range(2):
            gaps = layout_variant(s, rng, 0.15) if v else None
            text = concretise(s, seed=rng.randrange(1000), pools='rich',
                              gaps=gaps)
            work.append((text, 'reuse' if prop == 'C20' else True))
            sents.append(_freeze(s))
    # longer programs composed of the short ones, and twins (gen.compositions)
    comps = gen.compositions(themes, rng, tier, names=THEMES)
    if prop == 'C20':
        comps = [c for c in comps if c[1] is None]
    for s, sp in comps:
        text = concretise(s, seed=rng.randrange(1000), pools='rich',
                          spellings=sp)
        work.append((text, 'reuse' if prop == 'C20' else True))
        sents.append(s)
    rep.notes['compositions'] = len(comps)
    res = impl.pmap(_print, work, chunk=100)
    rep.mark('printed')
    cases = []
    pairs = set()
    info = {}
    skipped = 0
    distinct = set()
    for i, ((text, _), sent, r) in enumerate(zip(work, sents, res)):
        if r[0] != 'ok':
            skipped += 1
            continue
        from sentence import spec_tree
        if r[1] != spec_tree(sent):
            skipped += 1
            continue
        for ind, o in zip(INDENTS, r[2]):
            cid = len(cases)
            sig_cfg = 'indent=%r' % ind
            if o[0] == 'print-exc':
                rep.violation('%s printer-raised %s' % (prop, sig_cfg),
                              'pretty_print raised %s on %r' % (o[1], text),
                              {'text': text, 'indent': ind})
                continue
            out = o[1]
            rep.count('evaluations')
            if len(sent.tokens) >= 3:
                distinct.add((text, ind))
            if prop == 'C01':
                if o[0] == 'reparse-exc':
                    rep.violation(
                        'C01 reparse rejected %s' % culprit(sent, out),
                        'pretty output %r of %r does not parse: %s'
                        % (out, text, o[2]),
                        {'text': text, 'indent': ind, 'output': out})
                elif o[2] is not None:
                    rep.violation(
                        'C01 reparse tree-differs at=%s'
                        % o[2][0].split('/')[-1],
                        'pretty output %r of %r reads as a different tree: %r'
                        % (out, text, o[2]),
                        {'text': text, 'indent': ind, 'output': out})
                elif not o[3]:
                    rep.violation(
                        'C01 fixpoint', 'printing the re-parsed tree of %r '
                        'does not reproduce %r' % (text, out),
                        {'text': text, 'indent': ind, 'output': out})
            items = printing.expected_items(sent)
            aligned = printing.align(items, out)
            printing.rebalance_semicolons(items)
            pres = [x for x in items if x.present]
            for a, b in zip(pres, pres[1:]):
                pairs.add(printing.pair_key(a, b))
            cases.append((cid, items, aligned, out,
                          {'indent': ind, 'check_end': True,
                           'level': o[4]}))
            info[cid] = (text, ind, sent)
            if prop == 'C20' and o[5] is not None and o[5] != out:
                # a second record: what the reused printer produced
                cid = len(cases)
                items = printing.expected_items(sent)
                aligned = printing.align(items, o[5])
                printing.rebalance_semicolons(items)
                pres = [x for x in items if x.present]
                for a, b in zip(pres, pres[1:]):
                    pairs.add(printing.pair_key(a, b))
                cases.append((cid, items, aligned, o[5],
                              {'indent': ind, 'check_end': True, 'level': 0}))
                info[cid] = (text + '  [printer object reused after an '
                             'abandoned rendering]', ind, sent)
    rep.notes['skipped'] = skipped
    if prop == 'C01':
        # the programs the repository's own tests parse (DESIGN 4.5): no
        # derivation, so only the clauses the real parser decides
        corpus = gen.suite_corpus(rep)
        cres = impl.pmap(_print, [(t, False) for t in corpus], chunk=50)
        for text, r in zip(corpus, cres):
            if r[0] != 'ok':
                continue
            for ind, o in zip(INDENTS, r[2]):
                rep.count('evaluations')
                if o[0] == 'print-exc':
                    rep.violation('C01 printer-raised indent=%r' % ind,
                                  'pretty_print raised %s on %r' % (o[1], text),
                                  {'text': text, 'indent': ind})
                elif o[0] == 'reparse-exc':
                    rep.violation('C01 reparse rejected corpus',
                                  'pretty output %r of %r does not parse: %s'
                                  % (o[1], text, o[2]),
                                  {'text': text, 'indent': ind, 'output': o[1]})
                elif o[2] is not None:
                    rep.violation('C01 reparse tree-differs at=%s'
                                  % o[2][0].split('/')[-1],
                                  'pretty output %r of %r reads as a different '
                                  'tree: %r' % (o[1], text, o[2]),
                                  {'text': text, 'indent': ind, 'output': o[1]})
                elif not o[3]:
                    rep.violation('C01 fixpoint', 'printing the re-parsed tree '
                                  'of %r does not reproduce %r' % (text, o[1]),
                                  {'text': text, 'indent': ind, 'output': o[1]})
    fuse = printing.fuse_verdicts(pairs, rep)
    rep.notes['distinct_adjacent_pairs'] = len(pairs)
    recs = printing.print_records(cases, fuse, lambda m: m['indent'])
    verdicts = printing.validate(recs, prop.lower(), rep)
    rep.mark('validated')
    C20_CLAUSES = ('indentation', 'final newline', 'indentation level')
    for cid, items, aligned, out, meta in cases:
        why, k = verdicts[cid]
        rep.count('traces_validated_against_impl')
        if why == 'ok':
            continue
        is_c20 = why in C20_CLAUSES
        if (prop == 'C20') != is_c20:
            continue                    # the other property's clause
        text, ind, sent = info[cid]
        x = items[k] if 0 <= k < len(items) else None
        if why == 'tokens fuse':
            pres = [y for y in items if y.present]
            j = pres.index(x)
            a = pres[j - 1]
            sig = 'C01 fusion left=%s/%s right=%s/%s' % (
                a.kind, lastcls(a.text), x.kind, firstcls(x.text))
        elif why == 'indentation':
            sig = 'C20 indent clause=units tok=%s owner-depth=%d' % (
                x.cls if x.kind == 'PUNCT' else x.kind, min(x.depth, 3))
        else:
            sig = '%s %s%s' % (prop, why.replace(' ', '-'),
                               (' tok=%s' % (x.cls if x.kind == 'PUNCT'
                                             else x.kind)) if x else '')
        rep.violation(sig, 'PrintTrace.tla rejects pretty_print(%r, %r) = %r '
                      'at item %d: %s' % (text, ind, out, k, why),
                      {'text': text, 'indent': ind, 'output': out,
                       'item': k, 'abstract': sent.abstract()})
    rep.cov['distinct_nontrivial'] = len(distinct)
    if cases:
        c = cases[len(cases) // 2]
        rep.sample({'source': info[c[0]][0], 'indent': info[c[0]][1],
                    'output': c[3]})
    return rep.finish(RULES[prop])


def culprit(sent, out):
    return 'len=%s' % ('short' if len(out) < 40 else 'long')


def lastcls(text):
    return printing.char_class(text[-1])


def firstcls(text):
    return printing.char_class(text[0])


def main(tier, seed, replay=None):
    return main_for('C01', tier, seed, replay)
