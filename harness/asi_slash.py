# -*- coding: utf-8 -*-
"""
Shared core of C04 (automatic semicolon insertion) and C05 (division vs
regular expression): sentences of the ES5Grammar derivation machine with
line-break flags / virtual semicolons / dictated `/` kinds, concretised with
every kind of layout, replayed into the real parser.
"""
import impl
import project
from concretise import GAP_BREAK, GAP_PLAIN

GAP_CLASS = {
    'lf': 'LT', 'cr': 'LT', 'crlf': 'LT', 'lflf': 'LT',
    'ls': 'LSPS', 'ps': 'LSPS',
    'cmtlf': 'CMT[LT]', 'cmt3': 'CMT[LT]', 'cmt2lf': 'CMT[LT]',
    'cmtlsps': 'CMT[LSPS]', 'cmtcr': 'CMT[LT]',
    'line': 'LINECMT', 'vtline': 'LINECMT', 'linecr': 'LINECMT',
    'linecrlf': 'LINECMT', 'linels': 'LINECMT[LSPS]',
    'lineps': 'LINECMT[LSPS]',
    'lfcmt': 'LT+CMT', 'cmt_lf': 'CMT+LT', 'ffcmt': 'CMT+LT',
    'sp': 'SP', 'tab': 'SP', 'nbsp': 'SP', '2sp': 'SP', 'cmt': 'CMT',
    'none': 'NONE',
}
BREAK_KINDS = sorted(GAP_BREAK)
PLAIN_KINDS = ['sp', 'tab', 'nbsp', 'cmt']

SLASHY = ('/', '/=', 'REGEX')


def next_class(cls):
    if cls in ('ID', 'NUM', 'STR', 'IDN', 'this', 'null', 'true', 'false'):
        return 'operand'
    if cls in ('var', 'return', 'break', 'continue', 'throw', 'do', 'while',
               'if', 'for', 'debugger', 'function', 'switch', 'try', 'with',
               'else', 'case', 'default', 'catch', 'finally', 'in',
               'instanceof', 'new', 'typeof', 'void', 'delete'):
        return 'kw:' + cls
    return cls


class RecordingLexerMixin(object):
    """installed as parsers.es5.Lexer: logs every token the parser is fed"""
    log = None

    def __init__(self, *a, **kw):
        super(RecordingLexerMixin, self).__init__(*a, **kw)
        # Lexer.__init__ may bind self.token = self._token on the instance
        inner = self.token

        def token():
            t = inner()
            if t is not None and type(self).log is not None:
                type(self).log.append((t.type, t.lexpos))
            return t
        self.token = token
        # semicolons supplied through Parser.p_error do not pass token()
        inner_semi = self.auto_semi

        def auto_semi(tok):
            t = inner_semi(tok)
            if t is not None and type(self).log is not None:
                type(self).log.append((t.type, t.lexpos))
            return t
        self.auto_semi = auto_semi


_recording_cls = None


def parse_recording(text):
    """-> (outcome as impl.parse_outcome, {lexpos: type} of `/`-ish tokens)"""
    global _recording_cls
    import calmjs.parse.parsers.es5 as pe
    from calmjs.parse.lexers.es5 import Lexer
    from calmjs.parse.exceptions import ECMASyntaxError
    if _recording_cls is None:
        _recording_cls = type('RecordingLexer',
                              (RecordingLexerMixin, Lexer), {})
    _recording_cls.log = []
    old = pe.Lexer
    pe.Lexer = _recording_cls
    try:
        try:
            tree = pe.Parser().parse(text)
            out = ('ok', project.project(tree))
        except ECMASyntaxError as e:
            out = ('syntax', str(e), type(e).__name__)
        except impl.CaseTimeout:
            raise
        except project.ProjectionError as e:
            out = ('badtree', str(e), 'ProjectionError')
        except Exception as e:
            out = ('exc', repr(e), type(e).__name__)
    finally:
        pe.Lexer = old
    kinds = {}
    firsts = {}
    parse_recording.rawlog = list(_recording_cls.log)
    for typ, pos in _recording_cls.log:
        if typ in ('DIV', 'DIVEQUAL', 'REGEX'):
            kinds[pos] = typ          # the last decision for an offset wins
            firsts.setdefault(pos, typ)
    _recording_cls.log = None
    parse_recording.firsts = firsts
    parse_recording.autosemi = [pos for typ, pos in
                                (parse_recording.rawlog or [])
                                if typ == 'AUTOSEMI']
    return out, kinds


def judge(case):
    """worker: (text, dictated tree, [(offset, dictated slash kind)])"""
    text, exp, slashes = case[:3]
    out, kinds = parse_recording(text)
    if len(case) > 3 and isinstance(case[3], dict):
        # conformance with AsiImpl.tla: the real-token index in front of
        # which each AUTOSEMI token was handed to the parser (an AUTOSEMI
        # carries the offset of the token, or of the line terminator, it
        # was made for; 0 at the end of input)
        starts = case[3]['starts']
        log = parse_recording.rawlog or []
        accepted = []
        for j, (typ, p) in enumerate(log):
            if typ != 'AUTOSEMI':
                continue
            prev = log[j - 1] if j else None
            nxt = log[j + 1] if j + 1 < len(log) else None
            # a semicolon offered by p_error in front of the offending token
            # is part of the token sequence iff the parser took it, i.e. asks
            # for the pushed-back token next; otherwise the error recovery
            # (a `/` read again as a regex) throws both away
            if prev is not None and prev[1] == p and prev[0] != 'AUTOSEMI' \
                    and p != 0 and nxt != prev:
                continue
            accepted.append(p)
        seen = sorted({(len(starts) + 1) if p == 0 and len(starts) else
                       1 + sum(1 for x in starts if x < p)
                       for p in accepted})
        judge.drift = seen != sorted(case[3]['model'])
        judge.seen = seen
    elif len(case) > 3:
        # conformance with the implementation model (SlashImpl.tla): first
        # and final reading of every slash as the parser was handed them
        firsts = parse_recording.firsts
        rd = {'DIV': 'div', 'DIVEQUAL': 'div', 'REGEX': 'regex', None: None}
        seen = [[off, rd[firsts.get(off)], rd[kinds.get(off)]]
                for off, _ in slashes]
        judge.drift = seen[:len(case[3])] != case[3]
        judge.seen = seen
    if out[0] != 'ok':
        return (out[0], out[1])
    d = project.first_diff(exp, out[1])
    if d is not None:
        return ('tree', d, project.render(out[1]))
    for off, want in slashes:
        got = kinds.get(off)
        if got != want:
            return ('slash', off, want, got)
    return None


def judge_with_model(case):
    """judge + (drift?, what was seen) against the SlashImpl readings"""
    judge.drift, judge.seen = False, None
    r = judge(case)
    return r, judge.drift, judge.seen


def judge_reject(text):
    out = impl.parse_outcome(text)
    if out[0] == 'ok':
        return ('accepted', project.render(out[1]))
    return None


SLASH_TYPE = {'/': 'DIV', '/=': 'DIVEQUAL', 'REGEX': 'REGEX'}


def dictated_slashes(sent):
    return [(t.start, SLASH_TYPE[t.cls]) for t in sent.tokens
            if t.cls in SLASH_TYPE]
