# -*- coding: utf-8 -*-
"""Batch validation of position claims by TLC on spec/PosTrace.tla."""
import json
import os
import unicodedata

from common import run_tlc, tmp_dir

WS_CHARS = set('\t\x0b\x0c \xa0\ufeff')


def code(ch):
    if ch == '\n':
        return 1
    if ch == '\r':
        return 2
    if ch == '\u2028':
        return 3
    if ch == '\u2029':
        return 4
    if ch in WS_CHARS or unicodedata.category(ch) == 'Zs':
        return 5
    return 0


def validate(records, name, rep=None, workers=12):
    """
    records: [{'id', 'text', 'probes': [[off, line, col, fact, tag], ...]}]
    (probes need not be sorted) -> {id: (why, index of failing probe or None)}
    with the probe list as validated (sorted) under key 'sorted' in record.
    """
    trecs = []
    for r in records:
        pr = sorted(r['probes'], key=lambda p: p[0])
        r['sorted'] = pr
        trecs.append({
            'id': r['id'], 'cls': [code(c) for c in r['text']],
            'probes': [[p[0], p[1], p[2], bool(p[3])] for p in pr]})
    from common import validate_trace
    tlines = validate_trace('PosTrace', trecs, name, rep, chunk=5000)
    out = {}
    for line in tlines:
        i, why, k = json.loads(line)
        out[i] = (why, k - 1)
    if len(out) != len(records):
        raise RuntimeError('PosTrace returned %d verdicts for %d records'
                           % (len(out), len(records)))
    return out


def gap_lsps_model(text, extents):
    """positions under the named deviation 'LS/PS between tokens are not
    counted' (extents: [(start, length)] of tokens and comments);
    -> {offset: (line, col)} or None if the text has no such character"""
    inside = [False] * (len(text) + 1)
    for a, n in extents:
        for j in range(a, min(len(text), a + n)):
            inside[j] = True
    if not any(c in '\u2028\u2029' and not inside[j]
               for j, c in enumerate(text)):
        return None
    line, start = 1, 0
    pos = {}
    j = 0
    while j <= len(text):
        pos[j] = (line, j - start + 1)
        if j == len(text):
            break
        c = text[j]
        if c == '\r' and text[j + 1:j + 2] == '\n':
            pos[j + 1] = (line, j + 1 - start + 1)
            j += 2
            line += 1
            start = j
            continue
        if c in '\n\r' or (c in '\u2028\u2029' and inside[j]):
            j += 1
            line += 1
            start = j
            continue
        j += 1
    return pos
