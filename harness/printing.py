# -*- coding: utf-8 -*-
"""
Shared core of the printing checks C01 (pretty), C02 (minify), C20
(indentation): expected items from the derivation, alignment of the printed
text to them (plain sequential string matching, no lexical decisions), the
no-fusion oracle (spec/ES5Lexical.tla via FuseTrace.tla) and the verdict per
printed program (spec/PrintTrace.tla).
"""
import json
import os
import re
import unicodedata

import project
from common import run_tlc, tmp_dir

PATT_LINE_CONTINUATION = re.compile('\\\\(\n|\r(?!\n)|\u2028|\u2029|\r\n)')

LIST_PARENTS = ('ES5Program', 'Block', 'FuncDecl', 'FuncExpr', 'Case',
                'Default', 'GetPropAssign', 'SetPropAssign')
NEVER_CONTINUES = ('WORD', 'NUM', 'STR')

# ---- character classes of ES5Lexical.tla --------------------------------
P1 = set('(){};,:?~')
WS = set('\t\x0b\x0c \xa0\ufeff')
NL = set('\n\r\u2028\u2029')


def char_class(ch):
    if ch in 'abcdfABCDF':
        return 2
    if ch in 'eE':
        return 3
    if ch in 'xX':
        return 4
    if ch == '0':
        return 5
    if ch in '1234567':
        return 6
    if ch in '89':
        return 7
    simple = {'.': 8, "'": 9, '"': 10, '\\': 11, '/': 12, '*': 13, '+': 14,
              '-': 15, '=': 16, '<': 17, '>': 18, '!': 19, '&': 20, '|': 21,
              '%': 22, '^': 23, '[': 28, ']': 29}
    if ch in simple:
        return simple[ch]
    if ch in P1:
        return 24
    if ch in NL:
        return 26
    if ch in WS or unicodedata.category(ch) == 'Zs':
        return 25
    if ch in '$_' or ch.isalpha() or unicodedata.category(ch) == 'Nl':
        return 1
    if ch in '\u200c\u200d' or unicodedata.category(ch) in (
            'Mn', 'Mc', 'Nd', 'Pc'):
        return 30
    return 27


def classes(text):
    return [char_class(c) for c in text.replace('\r\n', '\n')]


def token_kind(cls):
    if cls in ('NUM', 'STR', 'REGEX'):
        return cls
    if cls in ('ID', 'IDN', 'GET', 'SET') or cls[:1].isalpha():
        return 'WORD'
    return 'PUNCT'


class Item(object):
    __slots__ = ('text', 'role', 'kind', 'cls', 'restricted', 'depth',
                 'droppable', 'present', 'sep', 'start', 'line_start',
                 'indent')

    def __init__(self, text, role, cls):
        self.text = text
        self.role = role
        self.cls = cls
        self.kind = token_kind(cls)
        self.restricted = False
        self.depth = 0
        self.droppable = False
        self.present = False
        self.sep = ''
        self.start = None
        self.line_start = False
        self.indent = ''


def expected_items(sent, strip_continuations=False):
    """
    The tokens the derivation dictates for the tree, in order, with their
    role, nesting depth and restricted flag.  Directly nested grouping
    parentheses collapse (named convention); a semicolon supplied by ASI
    in the source is an expected (optional) `;`.
    """
    skip = set()
    for n in sent.nodes:
        if n.kind == 'GroupingOp' and n.parent is not None and \
                n.parent.kind == 'GroupingOp':
            skip.update(n.own)
    # named convention: the optional trailing comma of an object or array
    # initialiser is not part of the tree, so it is not printed
    for n in sent.nodes:
        if n.kind in ('Object', 'Array') and len(n.own) >= 3:
            c, last = n.own[-2], n.own[-1]
            if sent.tokens[c].cls == ',' and c == last - 1:
                skip.add(c)
    items = []
    depth = 0
    case_tokens = {}
    for n in sent.nodes:
        if n.kind in ('Case', 'Default'):
            colon = [i for i in n.own if sent.tokens[i].cls == ':'][-1]
            for i in range(colon + 1, (n.last or colon) + 1):
                case_tokens[i] = case_tokens.get(i, 0) + 1
    restricted_next = False
    for it in sent.items:
        if it.virtual:
            x = Item(';', 'virtual', ';')
            x.depth = depth + (case_tokens.get(prev_idx, 0) if items else 0)
            items.append(x)
            continue
        if it.idx in skip:
            continue
        text = it.text
        if strip_continuations and it.cls == 'STR':
            text = PATT_LINE_CONTINUATION.sub('', text)
        if it.cls == '}':
            depth -= 1
        x = Item(text, it.role if it.cls == ';' or it.role == 'postfix'
                 else '', it.cls)
        x.restricted = bool(it.nobreak) or it.role == 'postfix'
        extra = case_tokens.get(it.idx, 0)
        if it.cls == '}' and it.owner is not None and \
                it.owner.kind == 'CaseBlock':
            extra = 0
        x.depth = depth + extra
        if it.cls == ';' and it.role == 'empty':
            p = it.owner.parent if it.owner is not None else None
            x.droppable = p is not None and p.kind in LIST_PARENTS
        items.append(x)
        prev_idx = it.idx
        if it.cls == '{':
            depth += 1
    return items


def align(items, out):
    """
    Sequential string matching of the expected items against the printed
    text: each gap may only hold white space / line terminators; a `;` may
    be absent.  Returns True iff the whole text was consumed that way.
    """
    pos = 0
    n = len(out)
    line_start = True
    for x in items:
        j = pos
        ls = line_start
        last_nl = None
        while j < n and (out[j] in WS or out[j] in NL or
                         unicodedata.category(out[j]) == 'Zs'):
            if out[j] in NL:
                ls = True
                last_nl = j
            j += 1
        if out.startswith(x.text, j) and x.text:
            x.present = True
            x.sep = out[pos:j]
            x.start = j
            x.line_start = ls
            x.indent = out[(last_nl + 1 if last_nl is not None else 0):j] \
                if ls else ''
            pos = j + len(x.text)
            line_start = False
            # a token holding line terminators does not start lines itself
        elif x.text == ';':
            x.present = False
        else:
            return False
    rest = out[pos:]
    return all(c in WS or c in NL for c in rest)


def rebalance_semicolons(items):
    """within a run of consecutive `;` items the text cannot tell which one
    was dropped: give presence to those that must not be dropped first"""
    i = 0
    while i < len(items):
        if items[i].text != ';':
            i += 1
            continue
        j = i
        while j < len(items) and items[j].text == ';':
            j += 1
        run = items[i:j]
        m = sum(1 for x in run if x.present)
        if 0 < m < len(run):
            pres = [x for x in run if x.present]
            info = [(x.sep, x.start, x.line_start, x.indent) for x in pres]

            def rank(x):
                # most favourable reading: a stand-alone empty statement
                # is the first to go, then terminators
                if x.role == 'for':
                    return 0
                if x.role == 'empty' and not x.droppable:
                    return 1
                if x.role in ('term', 'virtual'):
                    return 2
                return 3
            order = sorted(range(len(run)), key=lambda k: (rank(run[k]), k))
            keep = sorted(order[:m])
            for x in run:
                x.present = False
            for k, inf in zip(keep, info):
                x = run[k]
                x.present = True
                x.sep, x.start, x.line_start, x.indent = inf
        i = j
    return items


def pair_key(a, b):
    return (a.text, a.kind, b.sep.replace('\r\n', '\n'), b.text, b.kind)


def fuse_verdicts(pairs, rep=None):
    """{pair_key: True iff the two tokens keep their identity}, by TLC"""
    pairs = sorted(pairs)
    if not pairs:
        return {}
    tf = os.path.join(tmp_dir('fuse'), 'pairs.ndjson')
    with open(tf, 'w') as f:
        for i, (a, ka, sep, b, kb) in enumerate(pairs):
            f.write(json.dumps({'id': i, 'a': classes(a), 'ka': ka,
                                'sep': classes(sep), 'b': classes(b),
                                'kb': kb}) + '\n')
    tr = run_tlc('FuseTrace', cfg='FuseTrace.cfg',
                 cfg_text='SPECIFICATION Spec\nINVARIANT Verdict\n',
                 modules={'Dummy_': '---- MODULE Dummy_ ----\n====\n'},
                 workers=8, env={'TRACE_FILE': tf}, heap='4g')
    if rep is not None:
        rep.add_tlc(tr)
    out = {}
    for line in tr.lines:
        i, ok = json.loads(line)
        out[pairs[i]] = ok
    if len(out) != len(pairs):
        raise RuntimeError('FuseTrace: %d verdicts for %d pairs'
                           % (len(out), len(pairs)))
    return out


def print_records(cases, fuse, indent_of):
    """cases: [(id, items, aligned, out, meta)] -> PrintTrace records"""
    recs = []
    for cid, items, aligned, out, meta in cases:
        rows = []
        present = [x for x in items if x.present]
        nxt_of = {}
        last = None
        for x in items:
            if x.present:
                if last is not None:
                    nxt_of[id(last)] = x
                last = x
        prev = None
        indent_str = indent_of(meta)
        for k, x in enumerate(items):
            follower = None
            for y in items[k + 1:]:
                if y.present:
                    follower = y
                    break
            closes = follower is None or follower.text == '}'
            sep_lt = follower is not None and any(c in NL for c in follower.sep)
            offends = bool(follower is not None and sep_lt and
                           follower.kind in NEVER_CONTINUES and
                           follower.text not in ('in', 'instanceof'))
            fused = False
            if x.present and prev is not None:
                fused = not fuse[pair_key(prev, x)]
            indent_ok = True
            if x.present and x.line_start and indent_str is not None:
                indent_ok = x.indent == indent_str * x.depth
            rows.append([x.present, x.role, x.droppable, fused,
                         x.present and any(c in NL for c in x.sep),
                         x.restricted, bool(x.present and x.line_start),
                         indent_ok, closes, offends])
            if x.present:
                prev = x
        stripped = out.rstrip('\n')
        recs.append({'id': cid, 'items': rows, 'aligned': bool(aligned),
                     'checkEnd': bool(meta.get('check_end') and out),
                     'finalNewlines': len(out) - len(stripped),
                     'finalLevel': meta.get('level', 0) or 0})
    return recs


def validate(recs, name, rep=None):
    from common import validate_trace
    out = {}
    for line in validate_trace('PrintTrace', recs, name, rep):
        i, why, k = json.loads(line)
        out[i] = (why, k - 1)
    if len(out) != len(recs):
        raise RuntimeError('PrintTrace: %d verdicts for %d records'
                           % (len(out), len(recs)))
    return out


# ---- tree normalisation for the minifier (documented differences) --------
def normalise_minified(t, drop_empty):
    if t is None:
        return None
    if t[0] == 'String':
        return [t[0], PATT_LINE_CONTINUATION.sub('', t[1])]
    if t[0] in project.VALUE_KINDS:
        return t
    kids = [normalise_minified(c, drop_empty) for c in t[2:]]
    if drop_empty and t[0] in LIST_PARENTS:
        kids = [c for c in kids if not (c is not None and
                                        c[0] == 'EmptyStatement')]
    return [t[0], t[1]] + kids
