# -*- coding: utf-8 -*-
"""
C16 - tree walking reaches every node exactly once, parents first.

code -> spec: for the trees the real parser builds from the sentences of the
ES5Grammar themes, the tree found by attribute reflection and the order
Walker().walk / filter / extract produced are written as a trace and
validated by spec/Traversal.tla (pre-order machine), in one TLC batch.
"""
import json
import os

import gen
import impl
from common import Report, build_scratch, run_tlc, tmp_dir
from concretise import concretise

THEMES = ['lhs', 'stmt', 'iter', 'ctrl', 'lit', 'prec', 'acc', 'switch']

RULE = ('trees = real parse of every sentence TLC derives in the themes '
        '(subsampled to those adding a new (kind, optional-part mask, parent '
        'kind) triple plus a hash sample); each tree is one trace validated '
        'by Traversal.tla.  Non-trivial = at least 3 nodes; distinct by '
        'token-class string.')


def reflect(node):
    """child nodes stored in attributes (not via children())"""
    from calmjs.parse.asttypes import Node
    out = []
    for k, v in vars(node).items():
        if k == 'comments' or (k.startswith('_') and k != '_children_list'):
            continue
        if isinstance(v, Node):
            out.append(v)
        elif isinstance(v, (list, tuple)):
            out.extend(i for i in v if isinstance(i, Node))
    return out


def shape(node):
    """(kind, which optional attributes are absent)"""
    mask = tuple(sorted(k for k, v in vars(node).items()
                        if not k.startswith('_') and (v is None or v == [])))
    return type(node).__name__, mask


def _record(text):
    from calmjs.parse.parsers.es5 import parse
    from calmjs.parse.walkers import Walker
    try:
        tree = parse(text)
    except Exception as e:
        return ('noparse', repr(e))
    ids = {}
    ch = []
    kinds = []
    shapes = set()

    def number(n, parent):
        if id(n) in ids:
            return ids[id(n)]
        ids[id(n)] = len(ch) + 1
        me = ids[id(n)]
        ch.append(None)
        kinds.append(type(n).__name__)
        shapes.add(shape(n) + (parent,))
        ch[me - 1] = [number(c, kinds[me - 1]) for c in reflect(n)]
        return me
    number(tree, '')
    w = Walker()
    extra = []

    def ident(n):
        i = ids.get(id(n))
        if i is None:
            extra.append(type(n).__name__)
            return len(ch) + 1 + len(extra)
        return i
    walk = [ident(n) for n in w.walk(tree)]
    walk2 = [ident(n) for n in w.walk(tree)]
    fkinds = sorted({kinds[-1], 'Identifier', kinds[len(kinds) // 2]})
    filters = []
    extracts = []
    for k in fkinds:
        def cond(n, k=k):
            return type(n).__name__ == k
        got = [ident(n) for n in w.filter(tree, cond)]
        filters.append([k, got])
        for skip in (0, 1, len(got)):
            try:
                r = ident(w.extract(tree, cond, skip=skip))
            except TypeError:
                r = 0
            extracts.append([k, skip, r])
    # the same text once more: here the FIRST iterations the tree ever sees
    # are abandoned ones; numbered like the first tree, so ids correspond
    tree2 = parse(text)
    ids2 = {}
    count = [0]

    def number2(n):
        if id(n) in ids2:
            return
        count[0] += 1
        ids2[id(n)] = count[0]
        for c in reflect(n):
            number2(c)
    number2(tree2)

    def is_ident(n):
        return type(n).__name__ == 'Identifier'
    try:
        w.extract(tree2, is_ident)
    except TypeError:
        pass
    it = w.walk(tree2)
    for _ in range(3):
        next(it, None)
    del it
    next(w.filter(tree2, lambda n: type(n).__name__ == kinds[-1]), None)
    walk3 = [ids2.get(id(n), len(ch) + 99) for n in w.walk(tree2)]
    return ('ok', dict(ch=ch, kinds=kinds, walk=walk, walk2=walk2,
                       walk3=walk3, filters=filters, extracts=extracts),
            sorted(shapes), extra)


def main(tier, seed, replay=None):
    rep = Report('C16', 'model_checking', tier, seed)
    rep.assumptions = [
        'tree structure = Node objects found in vars(node) (plus '
        '_children_list); comments are annotations, not structure',
        'sibling order is not judged (the statement asks for parents before '
        'descendants and a stable order)']
    build_scratch()
    if replay:
        texts = [replay['case']['text']]
        sents = [None]
    else:
        themes = gen.run_themes(THEMES, tier, rep, jobs=8)
        sents = [s for n in THEMES for s in themes[n]]
        # random deep derivations over the whole grammar (tlc -simulate)
        r, deep = gen.simulate(3000 if tier == 'quick' else 60000,
                               maxtok=30 if tier == 'quick' else 40,
                               seed=seed + 1, workers=8)
        rep.add_tlc(r)
        rep.notes['deep_sentences'] = len(deep)
        # keep the sentences whose dictated tree shows a new (kind, optional
        # parts, parent kind) combination, plus a hash sample of the rest
        keep = []
        triples = set()
        for s in deep + sents:
            new = False
            for n in s.nodes:
                t = (n.kind, tuple(c is None for c in n.children),
                     len(n.children) > 2, n.parent.kind if n.parent else '')
                if t not in triples:
                    triples.add(t)
                    new = True
            if new or s.theme == 'sim' or hash(s.key()) % 12 == 0:
                keep.append(s)
        rep.notes['spec_shapes'] = len(triples)
        sents = keep
        texts = [concretise(s, seed=seed) for s in sents]
        # the programs the repository's own tests parse (DESIGN 4.5)
        corpus = gen.suite_corpus(rep)
        texts += corpus
        sents += [None] * len(corpus)
    rep.mark('generated')
    res = impl.pmap(_record, texts)
    rep.mark('recorded')
    seen_shapes = set()
    recs = []
    meta = {}
    limit = 12000 if tier == 'quick' else 120000
    for i, (text, r) in enumerate(zip(texts, res)):
        if r[0] != 'ok':
            continue                      # acceptance is C03's business
        new = [s for s in r[2] if tuple(map(str, s)) not in seen_shapes]
        if len(recs) >= limit and not new:
            continue
        for s in new:
            seen_shapes.add(tuple(map(str, s)))
        rec = r[1]
        rec['id'] = i
        recs.append(rec)
        meta[i] = (text, r[3])
    from common import validate_trace
    tlines = validate_trace('Traversal', recs, 'c16', rep, chunk=2500,
                            heap='4g')
    rep.mark('validated')
    verdicts = {}
    for line in tlines:
        tid, clause, matched = json.loads(line)
        verdicts[tid] = (clause, matched)
    if len(verdicts) != len(recs):
        raise RuntimeError('Traversal returned %d verdicts for %d records'
                           % (len(verdicts), len(recs)))
    nontrivial = 0
    for rec in recs:
        i = rec['id']
        text, extra = meta[i]
        clause, matched = verdicts[i]
        rep.count('evaluations')
        rep.count('traces_validated_against_impl')
        if len(rec['kinds']) >= 3:
            nontrivial += 1
        if extra:
            rep.violation('C16 walk clause=yielded-unstored kind=%s'
                          % extra[0],
                          'walk of %r yields a %s that is not stored in any '
                          'attribute' % (text, extra[0]), {'text': text})
            continue
        if clause != 'ok':
            # name the node at which the walk leaves the specification
            w = rec['walk']
            at = (rec['kinds'][w[matched] - 1] if matched < len(w)
                  and w[matched] <= len(rec['kinds']) else 'END')
            missing = sorted(set(range(2, len(rec['kinds']) + 1)) - set(w))
            mk = rec['kinds'][missing[0] - 1] if missing else '-'
            rep.violation(
                'C16 walk clause=%s at=%s missing=%s' % (
                    clause.replace(' ', '-'), at, mk),
                'Traversal.tla rejects the walk of %r after %d events: %s'
                % (text, matched, clause),
                {'text': text, 'record': rec, 'matched_prefix': matched})
    rep.cov['distinct_nontrivial'] = nontrivial
    rep.notes['shapes_covered'] = len(seen_shapes)
    rep.notes['kinds_covered'] = sorted({s[0] for s in seen_shapes})
    if recs:
        r0 = recs[len(recs) // 2]
        rep.sample({'text': meta[r0['id']][0], 'kinds': r0['kinds'],
                    'children': r0['ch'], 'walk': r0['walk']})
    return rep.finish(RULE)
