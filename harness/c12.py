# -*- coding: utf-8 -*-
"""
C12 - any input either parses or raises the ECMAScript syntax error, only;
the position quoted in a syntax-error message holds the quoted text.

Inputs: (a) every string up to length k over a lexical character alphabet
that includes the nasty code points (NUL, lone surrogates, astral, BOM,
LS/PS, unterminated string / comment / regex starters); (b) every truncation
and seeded single-character deletions / replacements / insertions of
programs derived by TLC from ES5Grammar.tla (themes + simulate).
Each input is parsed in a worker with a watchdog (with and without comment
capture) and lexed on its own.  Decided: outcome is a tree or
ECMASyntaxError (or subclass) - nothing else, no time-out; and by TLC
(PosTrace.tla) that the line:column of the message is a LineCol position of
the input at which the quoted offending text occurs.
The specification contributes the enumeration domain and the position
oracle; totality itself is explored, not proved (level: exploration).
"""
import ast
import itertools
import random
import re

import gen
import impl
import postrace
from common import Report, build_scratch
from concretise import concretise, layout_variant

ALPHA = ['a', '1', '.', "'", '"', '\\', '/', '*', '+', '=', '(', ')', '{',
         '}', '[', ']', ';', ' ', '\n', '\r', '\u2028', '\x00', '\ud800',
         '\U0001F600', '\ufeff', '#', '@', '`', 'x', 'u', '8', '0', 'é',
         '<', '!', '-', ',', ':', '?']
ALPHA_SMALL = ['a', '1', "'", '\\', '/', '*', '=', '(', ')', '\n', 'u', 'x',
               '8', '"', '[', ']', '{', '+']

RULE = ('(a) all strings of length <= k over 39 characters and of length k+1 '
        '/ k+2 over 18 characters, (b) all truncations and seeded single-'
        'character mutations of TLC-derived programs; each parsed with and '
        'without comment capture and lexed.  Non-trivial = the input raises '
        'a syntax error with a position or holds >= 3 tokens; distinct by '
        'input text.')

RE_AT = re.compile(r' at (\d+):(\d+)')
RE_QUOTED = re.compile(
    r"""^(?P<head>[A-Za-z ]+?) (?P<q>'(?:[^'\\]|\\.)*'|"(?:[^"\\]|\\.)*")"""
    r""" at (?P<l>\d+):(?P<c>\d+)""", re.S)


def offending(msg):
    """-> (kind, quoted text or None, line, col) of the offending position"""
    if msg.startswith('Error parsing regular expression '):
        i = msg.rfind("' at ")
        m = RE_AT.search(msg, i)
        if i < 0 or not m:
            return ('regex', None, None, None)
        text = msg[len("Error parsing regular expression '"):i]
        return ('regex', text, int(m.group(1)), int(m.group(2)))
    m = RE_QUOTED.match(msg)
    if m:
        try:
            text = ast.literal_eval(m.group('q'))
        except Exception:
            text = None
        head = m.group('head')
        if text is not None and head.startswith('Unterminated string'):
            if text.endswith('...'):
                text = text[:-3]
            text = text.strip()
        return (head.replace(' ', '-'), text, int(m.group('l')),
                int(m.group('c')))
    m = RE_AT.search(msg)
    if m and msg.startswith(('Function statement', 'Expression statement')):
        return ('noquote', None, int(m.group(1)), int(m.group(2)))
    return ('noposition', None, None, None)


def _try(text):
    from calmjs.parse.parsers.es5 import parse
    from calmjs.parse.lexers.es5 import Lexer
    from calmjs.parse.exceptions import ECMASyntaxError
    out = []
    for mode in ('parse', 'parse+comments', 'lex'):
        try:
            if mode == 'lex':
                lx = Lexer()
                lx.input(text)
                n = 0
                for _ in lx:
                    n += 1
                    if n > 10 * len(text) + 10:
                        out.append(('loop', 'more tokens than characters'))
                        break
                else:
                    out.append(('ok', n))
            else:
                parse(text, with_comments=(mode != 'parse'))
                out.append(('ok', 0))
        except ECMASyntaxError as e:
            out.append(('syntax', str(e)))
        except impl.CaseTimeout:
            raise
        except RecursionError:
            out.append(('ok', -1))       # depth limits are not the property
        except Exception as e:
            out.append(('exc', type(e).__name__, repr(e)[:200]))
    return out


def char_kind(ch):
    if ch == '':
        return 'EOF'
    if ch in '\n\r\u2028\u2029':
        return 'LT'
    if ch in '\'"':
        return 'quote'
    if ch == '\\':
        return 'backslash'
    if ch == '/':
        return 'slash'
    if ch == '*':
        return 'star'
    if ch.isalpha():
        return 'letter'
    if ch.isdigit():
        return 'digit'
    if ord(ch) < 32 or 0xd800 <= ord(ch) < 0xe000:
        return 'control'
    if ord(ch) > 127:
        return 'nonascii'
    return 'punct'


def main(tier, seed, replay=None):
    rep = Report('C12', 'exploration', tier, seed)
    rep.assumptions = [
        'a watchdog of 10 s per input stands for non-termination',
        'RecursionError on deeply nested input is a Python resource limit, '
        'not judged', 'the message grammar (first quoted text followed by '
        '" at L:C") is parsed by the harness']
    build_scratch()
    rng = random.Random(seed)
    texts = []
    if replay:
        texts = [replay['case']['text']]
    else:
        k = 2 if tier == 'quick' else 3
        for n in range(0, k + 1):
            for cs in itertools.product(ALPHA, repeat=n):
                texts.append(''.join(cs))
        for cs in itertools.product(ALPHA_SMALL, repeat=k + 1):
            texts.append(''.join(cs))
        if tier == 'quick':
            for _ in range(15000):
                texts.append(''.join(rng.choice(ALPHA_SMALL)
                                     for _ in range(rng.randrange(4, 7))))
        else:
            # (all strings of length k + 2 over 18 characters: every 4th)
            for j, cs in enumerate(itertools.product(ALPHA_SMALL,
                                                     repeat=k + 2)):
                if j % 4 == seed % 4:
                    texts.append(''.join(cs))
        rep.notes['short_strings'] = len(texts)
        themes = gen.run_themes(['stmt', 'lit', 'slash', 'ctrl'], tier, rep,
                                jobs=4)
        r, deep = gen.simulate(600 if tier == 'quick' else 8000, maxtok=24,
                               maxnl=1, seed=seed + 19, workers=8)
        rep.add_tlc(r)
        progs = deep + [s for nm in themes for s in themes[nm]
                        if hash(s.key()) % (150 if tier == 'quick' else 25) == 0]
        nm = 0
        bases = [concretise(s, seed=rng.randrange(999), pools='rich',
                            gaps=layout_variant(s, rng, 0.15)) for s in progs]
        # the programs the repository's own tests parse (DESIGN 4.5)
        corpus = [t for t in gen.suite_corpus(rep) if len(t) <= 400]
        if tier == 'quick':
            corpus = [t for j, t in enumerate(corpus) if j % 4 == seed % 4]
        for t in bases + corpus:
            for cut in range(len(t)):
                texts.append(t[:cut])
            for _ in range(12):
                i = rng.randrange(len(t) + 1)
                c = rng.choice(ALPHA)
                op = rng.choice('dri')
                if op == 'd' and i < len(t):
                    texts.append(t[:i] + t[i + 1:])
                elif op == 'r' and i < len(t):
                    texts.append(t[:i] + c + t[i + 1:])
                else:
                    texts.append(t[:i] + c + t[i:])
            nm += 1
        rep.notes['programs_mutated'] = nm
        texts = list(dict.fromkeys(texts))
    rep.mark('generated')
    res = impl.pmap(_try, texts, chunk=1000)
    rep.mark('executed')
    records = []
    info = {}
    distinct = 0
    for i, (text, r) in enumerate(zip(texts, res)):
        rep.count('evaluations')
        if isinstance(r, tuple) and r and r[0] == 'timeout':
            rep.violation('C12 no-termination', 'no result for %r within the '
                          'watchdog' % text, {'text': text})
            continue
        nontriv = False
        seen_msgs = set()
        for mode, o in zip(('parse', 'parse+comments', 'lex'), r):
            if o[0] in ('exc', 'loop'):
                j = None
                what = re.sub(r"'[^']*'|\"[^\"]*\"|\d+", '_', o[-1])[:60]
                sig = 'C12 escape exc=%s phase=%s what=%s' % (
                    o[1] if o[0] == 'exc' else 'loop', mode.split('+')[0],
                    what.replace(' ', '-'))
                rep.violation(sig, '%s(%r) raised %s' % (mode, text, o[-1]),
                              {'text': text, 'mode': mode,
                               'outcome': list(o)})
                continue
            if o[0] != 'syntax':
                continue
            kind, q, line, col = offending(o[1])
            if line is None:
                continue
            nontriv = True
            off = impl.linecol_to_offset(text, line, col)
            key = (mode != 'lex', o[1])
            if key in seen_msgs:
                continue            # same message from parse and parse+comments
            seen_msgs.add(key)
            rid = len(records)
            if off is None or off > len(text) or line < 1 or col < 1:
                records.append({'id': rid, 'text': text, 'probes': [
                    [0, line, col, False, 'nopos', kind]]})
            else:
                ok = q is None or text.startswith(q, off)
                records.append({'id': rid, 'text': text, 'probes': [
                    [off, line, col, ok, 'msg', kind]]})
            info[rid] = (text, mode, o[1], q)
        if nontriv or len(text) > 8:
            distinct += 1
    verdicts = postrace.validate(records, 'c12', rep) if records else {}
    rep.mark('validated')
    for rec in records:
        why, k = verdicts[rec['id']]
        rep.count('traces_validated_against_impl')
        if why == 'ok':
            continue
        text, mode, msg, q = info[rec['id']]
        p = rec['sorted'][0]
        sig = 'C12 message clause=%s kind=%s phase=%s' % (
            'text-not-there' if why == 'fact' else why, p[5],
            mode.split('+')[0])
        rep.violation(sig, '%s(%r) raises %r but the input at %s:%s reads %r'
                      % (mode, text, msg, p[1], p[2],
                         text[p[0]:p[0] + 12]),
                      {'text': text, 'mode': mode, 'message': msg})
    rep.cov['distinct_nontrivial'] = distinct
    rep.sample({'input': texts[len(texts) // 3], 'outcome':
                [list(map(str, o)) for o in res[len(texts) // 3]]})
    rep.sample({'input': texts[-1], 'outcome':
                [list(map(str, o)) for o in res[-1]]})
    return rep.finish(RULE)
