# -*- coding: utf-8 -*-
"""./check <Cxx> [--tier quick|thorough] [--replay <file>]"""
import argparse
import importlib
import os
import sys
import traceback

sys.path.insert(0, os.path.dirname(os.path.abspath(__file__)))
os.environ.setdefault('PYTHONHASHSEED', '0')

import common  # noqa


def main():
    ap = argparse.ArgumentParser()
    ap.add_argument('prop')
    ap.add_argument('--tier', default=os.environ.get('VERIF_TIER') or 'quick')
    ap.add_argument('--seed', type=int,
                    default=int(os.environ.get('VERIF_SEED') or 0))
    ap.add_argument('--replay')
    a = ap.parse_args()
    prop = a.prop.upper()
    try:
        mod = importlib.import_module(prop.lower())
    except ImportError as e:
        common.die_machinery('no check for %s (%s)' % (prop, e))
    replay = common.load_replay(a.replay) if a.replay else None
    if replay:
        # a replay file names the run it came from: the same tier and seed
        # regenerate the same inputs; the run reports whether the recorded
        # signature shows again (evidence files are left alone)
        a.tier = replay.get('tier', a.tier)
        a.seed = int(replay.get('seed', a.seed))
        os.environ['VERIF_REPLAY_SIG'] = replay.get('signature', '')
    try:
        rc = mod.main(a.tier, a.seed, replay)
    except common.MachineryError as e:
        traceback.print_exc()
        common.die_machinery(str(e))
    except Exception as e:
        traceback.print_exc()
        common.die_machinery('unexpected %r' % (e,))
    sys.stdout.flush()
    sys.exit(rc)


if __name__ == '__main__':
    main()
