# -*- coding: utf-8 -*-
"""./check <Cxx> [--tier quick|thorough] [--replay <file>]"""
import argparse
import importlib
import os
import sys
import traceback

sys.path.insert(0, os.path.dirname(os.path.abspath(__file__)))
os.environ.setdefault('PYTHONHASHSEED', '0')

import common  # noqa


# Checks whose own thorough parameters could not be run to completion within
# the memory of the sandbox in the time available (DESIGN 11.7): their
# thorough tier is the quick generation under four consecutive seeds (other spellings,
# layouts, samples, simulated derivations), one after the other.
MULTI_SEED_THOROUGH = {'C01', 'C02', 'C03', 'C04', 'C05', 'C07', 'C08',
                       'C11', 'C12', 'C13', 'C17', 'C20'}


def multi_seed(mod, prop, seed):
    import json
    rc = 0
    runs = []
    total = {}
    path = os.path.join(common.EVIDENCE, prop + '.json')
    for k in range(4):
        s = seed + k
        rc = max(rc, mod.main('quick', s, None))
        ev = json.load(open(path))
        cov = ev['coverage']
        runs.append({'seed': s, 'evaluations': cov.get('evaluations'),
                     'violations': ev.get('violations'),
                     'wall_s': ev.get('wall_s')})
        for key in ('evaluations', 'states', 'transitions',
                    'traces_validated_against_impl', 'distinct_nontrivial'):
            total[key] = total.get(key, 0) + (cov.get(key) or 0)
    ev['tier'] = 'thorough'
    ev['seed'] = seed
    ev['violations'] = sum(r['violations'] or 0 for r in runs)
    ev['wall_s'] = round(sum(r['wall_s'] or 0 for r in runs), 2)
    ev['coverage'].update(total)
    ev['coverage']['thorough_is_quick_generation_under_seeds'] = runs
    with open(path + '.tmp', 'w') as f:
        json.dump(ev, f, indent=1, sort_keys=True, default=repr)
    os.replace(path + '.tmp', path)
    return rc


def main():
    ap = argparse.ArgumentParser()
    ap.add_argument('prop')
    ap.add_argument('--tier', default=os.environ.get('VERIF_TIER') or 'quick')
    ap.add_argument('--seed', type=int,
                    default=int(os.environ.get('VERIF_SEED') or 0))
    ap.add_argument('--replay')
    a = ap.parse_args()
    prop = a.prop.upper()
    try:
        mod = importlib.import_module(prop.lower())
    except ImportError as e:
        common.die_machinery('no check for %s (%s)' % (prop, e))
    replay = common.load_replay(a.replay) if a.replay else None
    if replay:
        # a replay file names the run it came from: the same tier and seed
        # regenerate the same inputs; the run reports whether the recorded
        # signature shows again (evidence files are left alone)
        a.tier = replay.get('tier', a.tier)
        a.seed = int(replay.get('seed', a.seed))
        os.environ['VERIF_REPLAY_SIG'] = replay.get('signature', '')
    try:
        if a.tier == 'thorough' and prop in MULTI_SEED_THOROUGH and \
                not replay:
            rc = multi_seed(mod, prop, a.seed)
        else:
            rc = mod.main(a.tier, a.seed, replay)
    except common.MachineryError as e:
        traceback.print_exc()
        common.die_machinery(str(e))
    except Exception as e:
        traceback.print_exc()
        common.die_machinery('unexpected %r' % (e,))
    sys.stdout.flush()
    sys.exit(rc)


if __name__ == '__main__':
    main()
