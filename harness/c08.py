# -*- coding: utf-8 -*-
"""
C08 - emitted fragments carry the true source position of their token.

For TLC-derived programs (rich layout, multi-line tokens, CR/CRLF/LS/PS,
comments) the StreamFragments of the pretty, minified and obfuscating
printers are recorded; every explicitly positioned fragment becomes a probe
for spec/PosTrace.tla: the claimed line:column must be a LineCol position of
the source and the source there must start with the fragment's token (the
original name for a renamed identifier, the first comma for an elision run);
semicolons supplied by automatic insertion are exempt (the derivation says
which are).  Several source files: the fragment must name its own file.
"""
import random

import gen
import impl
import postrace
import project
from sentence import spec_tree
from common import Report, build_scratch
from concretise import concretise, layout_variant
from c11 import comment_extents, _freeze

THEMES = ['lhs', 'stmt', 'iter', 'ctrl', 'lit', 'prec', 'acc', 'switch',
          'asi']
CONFIGS = ['pretty', 'minify', 'obfuscate']

RULE = ('TLC-derived programs (themes subsampled by tree shape + simulate), '
        'two random rich layouts each, with and without comment capture, '
        'three printer configurations; one PosTrace record per (program, '
        'configuration) with a probe per explicitly positioned fragment.  '
        'Non-trivial = text has a line terminator and >= 3 positioned '
        'fragments; distinct by (text, configuration).')


def _fragments(case):
    text, with_comments, path = case
    from calmjs.parse.parsers.es5 import parse
    from calmjs.parse.unparsers.es5 import pretty_printer, minify_printer
    try:
        tree = parse(text, with_comments=with_comments)
    except Exception as e:
        return ('noparse', repr(e))
    tree.sourcepath = path
    out = {}
    try:
        out['tree'] = project.project(tree)
    except project.ProjectionError as e:
        return ('noparse', str(e))
    printers = {
        'pretty': pretty_printer('  '),
        'minify': minify_printer(),
        'obfuscate': minify_printer(obfuscate=True, obfuscate_globals=True),
    }
    for name in CONFIGS:
        try:
            out[name] = [list(f) for f in printers[name](tree)]
        except Exception as e:
            out[name] = ('exc', repr(e))
    return ('ok', out)


def main(tier, seed, replay=None):
    rep = Report('C08', 'model_checking', tier, seed)
    rep.assumptions = [
        'claimed line:column is turned into an offset by ES5 line-terminator '
        'counting in the harness; PosTrace.tla re-validates that offset and '
        'asserts the starts-with fact',
        'a fragment is explicitly positioned iff lineno and colno are both '
        'positive integers (0 = inferred, None = unmapped)']
    build_scratch()
    rng = random.Random(seed)
    themes = gen.run_themes(THEMES, tier, rep, jobs=9)
    r, deep = gen.simulate(2000 if tier == 'quick' else 10000,
                           maxtok=30 if tier == 'quick' else 40, maxnl=2,
                           seed=seed + 8, workers=8)
    rep.add_tlc(r)
    triples = set()
    keep = list(deep)
    mod = 14 if tier == 'quick' else 5
    for n in THEMES:
        for s in themes[n]:
            new = False
            for nd in s.nodes:
                t = (nd.kind, tuple(c is None for c in nd.children))
                if t not in triples:
                    triples.add(t)
                    new = True
            if new or hash(s.key()) % mod == 0:
                keep.append(s)
    rep.mark('generated')
    work = []
    sents = []
    for j, s in enumerate(keep):
        text = concretise(s, seed=rng.randrange(1000), pools='rich',
                          gaps=layout_variant(s, rng, 0.2))
        work.append((text, bool(j % 2), 'src%d.js' % (j % 3)))
        sents.append(_freeze(s))
    res = impl.pmap(_fragments, work, chunk=200)
    rep.mark('recorded')
    records = []
    info = {}
    skipped = 0
    for i, ((text, wc, path), sent, r) in enumerate(zip(work, sents, res)):
        if r[0] != 'ok' or r[1]['tree'] != spec_tree(sent):
            skipped += 1        # acceptance / tree shape is C03 and C04
            continue
        # positions that a semicolon supplied by ASI may carry: that of the
        # token following the virtual semicolon
        after_virtual = set()
        items = sent.items
        for a, it in enumerate(items):
            if it.virtual:
                nxt = [x for x in items[a + 1:] if not x.virtual]
                if nxt:
                    after_virtual.add(nxt[0].start)
        semis = [it.virtual for it in items
                 if it.virtual or (it.cls == ';')]
        for cfg in CONFIGS:
            frs = r[1][cfg]
            rid = len(records)
            if not isinstance(frs, tuple):
                nsemi = sum(1 for f in frs if f[0] == ';')
                # the k-th ';' fragment is the k-th ';' of the derivation
                # (real or supplied by ASI) when the printer kept them all
                virt = {}
                if nsemi == len(semis):
                    k = 0
                    for fi, f in enumerate(frs):
                        if f[0] == ';':
                            virt[fi] = semis[k]
                            k += 1
            if isinstance(frs, tuple):
                rep.violation('C08 printer-raised cfg=%s' % cfg,
                              '%s printer raised %s on %r' % (cfg, frs[1], text),
                              {'text': text, 'cfg': cfg})
                continue
            probes = []
            for fi, f in enumerate(frs):
                ftext, line, col, name, source = f
                if not (isinstance(line, int) and isinstance(col, int)
                        and line > 0 and col > 0):
                    continue
                want = name if name else ftext
                if ftext and set(ftext) == {','}:
                    want = ','
                off = impl.linecol_to_offset(text, line, col)
                src_ok = source in (None, path)
                if off is None or off > len(text):
                    probes.append([0, line, col, False, 'nopos', want, fi])
                    continue
                if ftext == ';' and virt.get(fi):
                    continue                    # ASI semicolon: exempt
                ok = text.startswith(want, off) and bool(want)
                probes.append([off, line, col, ok and src_ok,
                               'text' if src_ok else 'source', want, fi])
            records.append({'id': rid, 'text': text, 'probes': probes,
                            'frags': frs, 'virt': virt, 'path': path})
            info[rid] = (i, cfg, wc)
    rep.notes['skipped_noparse'] = skipped
    verdicts = postrace.validate(records, 'c08', rep)
    rep.mark('validated')
    distinct = set()
    for rec in records:
        text = rec['text']
        i, cfg, wc = info[rec['id']]
        why, k = verdicts[rec['id']]
        rep.count('evaluations')
        rep.count('traces_validated_against_impl')
        if len(rec['probes']) >= 3 and any(c in text for c in '\n\r\u2028\u2029'):
            distinct.add((text, cfg))
        if why == 'ok':
            continue
        p = rec['sorted'][k]
        sent = sents[i]
        sig = 'C08 %s cfg=%s comments=%s frag=%s' % (
            p[4] if why == 'fact' else why, cfg, wc, classify(p[5]))
        # named deviation: LS / PS between tokens not counted - the whole
        # record is re-judged with positions counted that way
        ext = [(t.start, len(t.text)) for t in sent.tokens]
        model = postrace.gap_lsps_model(text, ext + comment_extents(text, ext))
        if model is not None:
            inv = {}
            for off, lc in sorted(model.items()):
                inv.setdefault(lc, off)
            good = True
            for fi, f in enumerate(rec['frags']):
                ftext, line, col, name, source = f
                if not (isinstance(line, int) and isinstance(col, int)
                        and line > 0 and col > 0):
                    continue
                want = ',' if ftext and set(ftext) == {','} else (name or ftext)
                off = inv.get((line, col))
                if ftext == ';' and rec['virt'].get(fi):
                    continue
                elif off is None:
                    good = False
                elif not text.startswith(want, off) or \
                        source not in (None, rec['path']):
                    good = False
            if good:
                sig = 'C08 linecol lt=LS|PS in=gap not-counted'
        rep.violation(sig, 'fragment %r of the %s printer claims %d:%d of %r '
                      'where the source reads %r' % (
                          p[5], cfg, p[1], p[2], text, text[p[0]:p[0] + 12]),
                      {'text': text, 'cfg': cfg, 'with_comments': wc,
                       'probe': p, 'abstract': sent.abstract()})
    rep.cov['distinct_nontrivial'] = len(distinct)
    if records:
        r0 = records[len(records) // 2]
        rep.sample({'text': r0['text'], 'cfg': info[r0['id']][1],
                    'probes': r0['sorted'][:8]})
    return rep.finish(RULE)


def classify(want):
    if want[:2] in ('/*', '//'):
        return 'comment'
    if want[:1] in '\'"':
        return 'string'
    if want[:1].isalpha() or want[:1] in '$_':
        return 'word'
    if want[:1].isdigit():
        return 'number'
    return want[:3]
