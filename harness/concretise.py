# -*- coding: utf-8 -*-
"""
Token classes and layout kinds -> characters (DESIGN 4.1, appendix D).
Deterministic in (sentence, seed, options).  No parsing logic.
"""

ID_BASIC = ['a', 'b', 'c', 'd', 'e', 'f', 'g', 'h']
ID_RICH = ['a', 'b', 'x1', 'a5', '$', '$a', 'a$', '_', 'é', 'Ω', 'á',
           'of', 'let', 'undefined', 'arguments', 'getx', 'sety', 'iff', 'ins',
           # a reserved word continued by $ / _ / a digit is an identifier
           'this$1', 'in$', 'do_', 'new0', '$if']
IDN_BASIC = ['p', 'q', 'r']
IDN_RICH = ['p', 'q', 'if', 'in', 'return', 'class', 'get', 'set', 'function',
            'this', 'null', 'new', 'typeof', 'do', 'instanceof', '$', 'x1']
NUM_BASIC = ['1', '2', '3']
NUM_RICH = ['0', '1', '42', '1.5', '.5', '1.', '1e3', '1E+5', '1e-5', '0x1F',
            '0X0', '017', '0.0', '9', '5', '10']
STR_BASIC = ["'s'", '"t"']
STR_RICH = ["''", '"a"', "'a\"b'", '"\\n\\t\\\\\\"\\/\\x41é"', "'\\0'",
            "'a\\\nb'", "'a\\\r\nb'", '"a\\\u2028b"', "'\\u0041'",
            "'\x0c\x0b'", '"\x85\x1c"', "'\x1d\x1e'",
            "'a\\\rb'", "'a\\\nb\\\nc'", '"\\\r\n\\\r\\\n"', "'x\\\u2029\\\u2028y'"]
REGEX_BASIC = ['/re/', '/a/g']
REGEX_RICH = ['/re/', '/a\\/b/g', '/[/]/', '/=/', '/ /', '/\\s+/gim', '/a/i']

POOLS = {
    'basic': {'ID': ID_BASIC, 'IDN': IDN_BASIC, 'NUM': NUM_BASIC,
              'STR': STR_BASIC, 'REGEX': REGEX_BASIC},
    'rich': {'ID': ID_RICH, 'IDN': IDN_RICH, 'NUM': NUM_RICH,
             'STR': STR_RICH, 'REGEX': REGEX_RICH},
}
FIXED = {'GET': 'get', 'SET': 'set'}

# layout kinds (DESIGN 3.1): without / with a line terminator
GAP_PLAIN = {'sp': ' ', 'none': '', 'tab': '\t', 'nbsp': ' ',
             'cmt': ' /*c*/ ', '2sp': '  '}
GAP_BREAK = {'lf': '\n', 'cr': '\r', 'crlf': '\r\n', 'ls': '\u2028',
             'ps': '\u2029', 'cmtlf': ' /*\n*/ ', 'line': ' //c\n',
             'lfcmt': '\n/*c*/ ', 'cmt_lf': ' /*c*/\n', 'lflf': '\n\n',
             'ffcmt': ' /*\x0c\x85*/\n', 'vtline': ' //\x0b\x1c\n',
             'cmt3': ' /* a\n b\r\n c */ ', 'cmt2lf': ' /*\n\n*/ ',
             'cmtlsps': ' /*\u2028\u2029*/ ', 'cmtcr': ' /*\r*/ ',
             # line comments ended by each kind of line terminator
             'linecr': ' //c\r', 'linecrlf': ' // c\r\n',
             'linels': ' //c\u2028', 'lineps': ' //\u2029'}


def spell(tok, k, pools):
    pool = pools.get(tok.cls)
    if pool is not None:
        return pool[k % len(pool)]
    return FIXED.get(tok.cls, tok.cls)


def concretise(sent, seed=0, pools='basic', gap='sp', brk='lf',
               gaps=None, spellings=None, lead=''):
    """
    Fill tok.text / tok.lead / tok.start and return the text.
    gaps:      {token index: literal gap string} overrides
    spellings: {token index: text} overrides
    """
    p = POOLS[pools] if isinstance(pools, str) else pools
    parts = []
    pos = 0
    counters = {}
    for t in sent.tokens:
        c = counters.get(t.cls, 0)
        counters[t.cls] = c + 1
        if spellings and t.idx in spellings:
            t.text = spellings[t.idx]
        else:
            t.text = spell(t, c + seed, p)
        if gaps and t.idx in gaps:
            g = gaps[t.idx]
        elif t.idx == 0:
            g = lead
        elif t.nl:
            g = GAP_BREAK[brk]
        else:
            g = GAP_PLAIN[gap]
        t.lead = g
        parts.append(g)
        pos += len(g)
        t.start = pos
        parts.append(t.text)
        pos += len(t.text)
    return ''.join(parts)


def layout_variant(sent, rng, break_p=0.25):
    """random layout: {token index: gap text}; tokens flagged nl always get a
    gap containing a line terminator"""
    gaps = {}
    # never the empty gap: adjacent tokens could fuse into other tokens
    plain = [g for g in GAP_PLAIN.values() if g]
    brk = list(GAP_BREAK.values())
    for t in sent.tokens:
        if t.idx == 0:
            gaps[0] = rng.choice(['', '\n', ' ', '/* x\n y */ ', '\r\n'])
        elif t.nl:
            gaps[t.idx] = rng.choice(brk)
        elif rng.random() < break_p and not getattr(t, 'nobreak', False):
            gaps[t.idx] = rng.choice(brk)
        else:
            gaps[t.idx] = rng.choice(plain[:1] * 3 + plain)
    return gaps
