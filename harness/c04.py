# -*- coding: utf-8 -*-
"""
C04 - automatic semicolon insertion follows ECMA-262 7.9.

The derivation machine (ES5Grammar.tla) generates programs with virtual
semicolons and line-break flags exactly where 7.9 allows them; each is
concretised with every kind of line-breaking layout and replayed into the
parser, together with its explicit-semicolon twin: both must give the
dictated tree.  Near-sentences obtained by lifting one ASI rule
(restricted productions, empty statement, for header, offending-token test)
must be rejected.
"""
import random
from concurrent.futures import ThreadPoolExecutor

import accept
import asi_slash as core
import gen
import impl
import project
from common import Report, build_scratch
from concretise import concretise, GAP_BREAK
from sentence import spec_tree

THEMES = ['asi', 'asi2', 'asi3']
DEEP_SIGMA = ['ID', ';', '{', '}', '(', ')', 'function', 'if', 'while', 'for',
              'return', 'var', '=', 'do', 'else', ',']

NEAR = [
    ('nolt', ['ID', ';', '{', '}', 'return', 'break', 'continue', 'throw',
              '++', '--', '(', ')', '+'], {'quick': 5, 'thorough': 6}),
    ('emptyasi', ['ID', ';', 'if', 'else', 'while', 'for', '(', ')', '{',
                  '}', 'do'], {'quick': 5, 'thorough': 8}),
    ('forasi', ['ID', ';', 'for', '(', ')', '{', '}', 'var', 'in'],
     {'quick': 6, 'thorough': 9}),
    ('anyasi', ['ID', 'NUM', ';', '{', '}', '(', ')', '=', '+', 'var',
                'return', 'do', 'while', 'if', 'else', '[', ']', '.', 'IDN'],
     {'quick': 4, 'thorough': 6}),
]

RULE = ('every sentence of the asi themes and of seeded deep tlc -simulate derivations (16 tokens, function bodies nested in headers) that has a virtual semicolon or a '
        'line break, concretised with line-break layout kinds (quick: LF + 2 '
        'rotating kinds of 15, thorough: all) and its explicit-semicolon '
        'twin; near-sentences with one ASI rule lifted must be rejected.  '
        'Non-trivial = at least one virtual semicolon; distinct by (token '
        'string, line-break flags).')


RESTRICTED_KW = ('return', 'break', 'continue', 'throw')


def tok_category(cls):
    if cls in ('++', '--'):
        return 'incdec'
    if cls in ('(', '[', '+', '-', '{'):
        return 'punct-start'
    if cls in (';', '}', 'REGEX', '/', '/='):
        return cls
    c = core.next_class(cls)
    return 'kw' if c.startswith('kw:') else c


def site(sent, i):
    """
    Abstract description of the place where the parser and 7.9 disagree:
    the cause class (which named deviation of the implementation could
    explain it) plus the categories of the tokens around the gap.
    """
    t = sent.tokens[i]
    prev = sent.tokens[i - 1] if i else None
    gap = getattr(t, 'gapkind', 'SP')
    vs = False
    for a, it in enumerate(sent.items):
        if it is t and a and sent.items[a - 1].virtual:
            vs = True
    pc = prev.cls if prev else 'START'
    if gap in ('LSPS', 'CMT[LSPS]'):
        cause = 'lsps-not-a-line-terminator'
    elif gap in ('CMT[LT]', 'LT+CMT', 'CMT+LT', 'LINECMT'):
        cause = 'comment-in-gap:' + gap
    elif gap == 'LT' and t.cls in ('++', '--'):
        cause = 'incdec-after-line-break'
    elif gap == 'LT' and t.cls == ';' and pc in RESTRICTED_KW:
        cause = 'semicolon-after-restricted-keyword'
    elif gap == 'LT' and t.cls == 'REGEX':
        cause = 'regex-after-line-break'
    else:
        cause = 'other:gap=%s' % gap
    return 'cause=%s prev=%s tok=%s vs=%s' % (
        cause, pc if pc in RESTRICTED_KW else tok_category(pc),
        tok_category(t.cls), 'yes' if vs else 'no')


def first_site(sent):
    """the decisive place of a case: the first token preceded by a line
    break, else the first token after a virtual semicolon"""
    for t in sent.tokens:
        if t.nl:
            return t.idx
    for a, it in enumerate(sent.items):
        if it.virtual:
            nxt = [x for x in sent.items[a + 1:] if not x.virtual]
            if nxt:
                return nxt[0].idx
    return len(sent.tokens) - 1


def with_explicit_semicolons(sent):
    """text of the same program with every virtual semicolon written out"""
    parts = []
    pending = False
    for it in sent.items:
        if it.virtual:
            pending = True
            continue
        if pending:
            parts.append(';')
            pending = False
        parts.append(it.lead)
        parts.append(it.text)
    if pending:
        parts.append(';')
    return ''.join(parts)


def main(tier, seed, replay=None):
    rep = Report('C04', 'model_checking', tier, seed)
    rep.assumptions = [
        'the set of tokens that can continue a construct (Cont in '
        'ES5Grammar.tla) is transcribed from the grammar by hand',
        'layout kinds stand for all layouts of their class']
    build_scratch()
    rng = random.Random(seed)
    themes = gen.run_themes(THEMES, tier, rep, jobs=6, overrides={
        n: {'layer2': 'asi'} for n in THEMES})
    # deep random derivations (tlc -simulate): terminators nested in
    # function bodies inside statement headers, calls, initialisers
    sr, deep = gen.simulate(3000 if tier == 'quick' else 15000, maxtok=16,
                            maxnl=2, seed=seed + 5, sigma=DEEP_SIGMA,
                            workers=4, layer2='asi')
    rep.add_tlc(sr)
    themes['deep'] = sorted(deep, key=lambda s: s.key())
    rep.notes['deep_sentences'] = len(deep)
    # the ASI sentences once more inside function bodies that stand in call
    # arguments, groupings, assignments, declarations (sentence.embed)
    tmpls = gen.templates(rep)
    pool = [s for n in THEMES for s in themes[n]
            if any(it.virtual for it in s.items)
            and hash(s.key()) % (8 if tier == 'quick' else 4) == seed % 2]
    themes['embedded'] = gen.embeddings(pool, tmpls, rng, 1)
    rep.notes['embedded_sentences'] = len(themes['embedded'])
    rep.mark('generated')
    kinds = core.BREAK_KINDS
    work = []
    meta = []
    distinct = set()
    n = 0
    for name in THEMES + ['deep', 'embedded']:
        for s in themes[name]:
            has_v = any(it.virtual for it in s.items)
            has_nl = any(t.nl for t in s.tokens)
            if not (has_v or has_nl):
                continue
            if tier != 'quick' and hash(s.key()) % 4 != seed % 4:
                continue        # (thorough themes are ~15 times larger)
            if tier == 'quick' and not (has_v and has_nl) and \
                    hash(s.key()) % 4:
                continue
            n += 1
            if has_v:
                distinct.add(s.key())
            if not has_nl:
                ks = ['lf']
            elif tier == 'quick':
                ks = ['lf', kinds[(n + seed) % len(kinds)]]
            else:
                ks = ['lf'] + [kinds[(n * 5 + seed + j) % len(kinds)]
                                for j in range(5)]
            for k in dict.fromkeys(ks):
                text = concretise(s, seed=seed + n, brk=k)
                for t in s.tokens:
                    t.gapkind = core.GAP_CLASS[k] if t.nl else 'SP'
                exp = spec_tree(s)
                starts = [t.start for t in s.tokens]
                if s.model is not None:
                    # AsiImpl.tla: <<token index, path>> per semicolon
                    work.append((text, exp, [], {
                        'starts': starts,
                        'model': [m[0] for m in s.model]}))
                else:
                    work.append((text, exp, []))
                meta.append((s, k, text, 'omitted', starts))
                if has_v and k == 'lf':
                    t2 = with_explicit_semicolons(s)
                    work.append((t2, exp, []))
                    meta.append((s, k, t2, 'explicit', None))
    res3 = impl.pmap(core.judge_with_model, work, chunk=400)
    rep.mark('positive')
    res = []
    drift = 0
    compared = 0
    for w, r3 in zip(work, res3):
        if r3 and r3[0] == 'timeout':
            res.append(r3)
            continue
        res.append(r3[0])
        if len(w) > 3:
            compared += 1
            if r3[1]:
                drift += 1
                if drift <= 3:
                    rep.notes.setdefault('drift_examples', []).append(
                        {'text': w[0], 'model': w[3]['model'],
                         'code': r3[2]})
    # spec -> code conformance of AsiImpl.tla (reported, not a verdict)
    rep.notes['drift_model_vs_code'] = drift
    rep.notes['compared_with_model'] = compared
    for (s, k, text, form, starts), r in zip(meta, res):
        rep.count('evaluations')
        if r is None:
            continue
        for t in s.tokens:
            t.gapkind = core.GAP_CLASS[k] if t.nl else 'SP'
        case = {'abstract': s.abstract(), 'text': text, 'layout': k,
                'form': form, 'dictated': s.bracketed()}
        if r[0] == 'syntax':
            sig = 'C04 asi expected=accept got=reject %s' % site(
                s, first_site(s))
            case['error'] = r[1]
            rep.violation(sig, 'parse(%r) raises %r; 7.9 dictates %s'
                          % (text, r[1], s.bracketed()), case)
        elif r[0] == 'tree':
            sig = 'C04 asi expected=accept got=tree %s' % site(
                s, first_site(s))
            case['got'] = r[2]
            rep.violation(sig, 'parse(%r) builds %s; 7.9 dictates %s'
                          % (text, r[2], s.bracketed()), case)
        else:
            sig = 'C04 asi expected=accept got=%s %s' % (
                r[0], site(s, first_site(s)))
            case['error'] = r[1]
            rep.violation(sig, 'parse(%r): %s' % (text, r[1]), case)
    for name in THEMES:
        c = [s for s in themes[name] if any(i.virtual for i in s.items)
             and any(t.nl for t in s.tokens)]
        if c:
            s = c[len(c) // 2]
            rep.sample({'tokens': s.abstract(),
                        'text': concretise(s, seed=seed, brk='crlf'),
                        'dictated_tree': s.bracketed()})

    # ---- near-sentences: one ASI rule lifted, must be rejected ----------
    def gen_pair(spec):
        rule, sigma, bounds = spec
        r0, strict = gen.run_theme('asi', tier, maxtok=bounds[tier],
                                   sigma=sigma, maxnl=1, workers=2)
        r1, lifted = gen.run_theme('asi', tier, maxtok=bounds[tier],
                                   sigma=sigma, maxnl=1, relax=[rule],
                                   workers=2)
        return r0, strict, r1, lifted
    with ThreadPoolExecutor(max_workers=len(NEAR)) as ex:
        pairs = list(ex.map(gen_pair, NEAR))
    rep.mark('near-generated')
    counts = {}
    for (rule, sigma, bounds), (r0, strict, r1, lifted) in zip(NEAR, pairs):
        rep.add_tlc(r0)
        rep.add_tlc(r1)

        def lexkey(s):
            return tuple(('ID' if t.cls == 'IDN' else t.cls, t.nl)
                         for t in s.tokens)
        lang = {lexkey(s) for s in strict}
        near = {}
        for s in lifted:
            k = lexkey(s)
            if k not in lang:
                near.setdefault(k, s)
        counts[rule] = {'strict': len(lang), 'near': len(near)}
        cands = []
        for j, s in enumerate(near.values()):
            for t in s.tokens:
                if t.cls == 'IDN':
                    t.cls = 'ID'
            for k in dict.fromkeys(['lf', kinds[(j + seed) % len(kinds)]]):
                cands.append((s, k, concretise(s, seed=seed + j, brk=k)))
        res = impl.pmap(core.judge_reject, [c[2] for c in cands], chunk=400)
        bad = [(c, r) for c, r in zip(cands, res) if r is not None]
        for _ in cands:
            rep.count('evaluations')
        if bad:
            rec = accept.recognise(
                [(c[0].classes(), [t.idx + 1 for t in c[0].tokens if t.nl])
                 for c, _ in bad], rep=rep)
            for ((s, k, text), r), a in zip(bad, rec):
                if a['accepted']:
                    continue      # aliasing at text level: it is derivable
                v = first_site(s)
                for t in s.tokens:
                    t.gapkind = core.GAP_CLASS[k] if t.nl else 'SP'
                sig = 'C04 asi expected=reject got=accept rule=%s %s' % (
                    rule, site(s, v))
                rep.violation(sig, 'parse(%r) -> %s although 7.9 does not '
                              'allow a semicolon there (%s)'
                              % (text, r[1], s.abstract()),
                              {'abstract': s.abstract(), 'text': text,
                               'layout': k, 'rule': rule, 'got': r[1]})
        if near:
            s0 = list(near.values())[len(near) // 2]
            rep.sample({'near_sentence_rule_lifted': rule,
                        'text': concretise(s0, seed=seed, brk='lf')})
    rep.notes['near_sentences'] = counts
    rep.mark('near')
    rep.cov['distinct_nontrivial'] = len(distinct)
    return rep.finish(RULE)


def locate(sent, text, pos):
    off = impl.linecol_to_offset(text, *pos)
    for t in sent.tokens:
        if t.start == off:
            return t.idx
    return None
