# -*- coding: utf-8 -*-
"""
Projection of real calmjs.parse objects into plain data (DESIGN 4.1).
Uses attribute reflection only - never children(), __iter__, ReprWalker or
str(), which are themselves under test.
"""

N, O, L = 'n', 'o', 'l'       # node, optional node, list of nodes

# kind -> (name of the attribute holding op/attr or None, [(attribute, mode)])
# children are listed in SOURCE order
PROJ = {
    'ES5Program': (None, [('_children_list', L)]),
    'Block': (None, [('_children_list', L)]),
    'CaseBlock': (None, [('_children_list', L)]),
    'VarStatement': (None, [('_children_list', L)]),
    'VarDecl': (None, [('identifier', N), ('initializer', O)]),
    'VarDeclNoIn': (None, [('identifier', N), ('initializer', O)]),
    'ExprStatement': (None, [('expr', N)]),
    'If': (None, [('predicate', N), ('consequent', N), ('alternative', O)]),
    'While': (None, [('predicate', N), ('statement', N)]),
    'DoWhile': (None, [('statement', N), ('predicate', N)]),
    'For': (None, [('init', N), ('cond', N), ('count', O), ('statement', N)]),
    'ForIn': (None, [('item', N), ('iterable', N), ('statement', N)]),
    'Continue': (None, [('identifier', O)]),
    'Break': (None, [('identifier', O)]),
    'Return': (None, [('expr', O)]),
    'Throw': (None, [('expr', N)]),
    'With': (None, [('expr', N), ('statement', N)]),
    'Label': (None, [('identifier', N), ('statement', N)]),
    'Switch': (None, [('expr', N), ('case_block', N)]),
    'Case': (None, [('expr', N), ('elements', L)]),
    'Default': (None, [('elements', L)]),
    'Try': (None, [('statements', N), ('catch', O), ('fin', O)]),
    'Catch': (None, [('identifier', N), ('elements', N)]),
    'Finally': (None, [('elements', N)]),
    'FuncDecl': (None, [('identifier', O), ('parameters', L), ('elements', L)]),
    'FuncExpr': (None, [('identifier', O), ('parameters', L), ('elements', L)]),
    'This': (None, []),
    'Array': (None, [('items', L)]),
    'Object': (None, [('properties', L)]),
    'Assign': ('op', [('left', N), ('right', N)]),
    'GetPropAssign': (None, [('prop_name', N), ('elements', L)]),
    'SetPropAssign': (None, [('prop_name', N), ('parameter', N),
                             ('elements', L)]),
    'GroupingOp': (None, [('expr', N)]),
    'NewExpr': (None, [('identifier', N), ('args', O)]),
    'FunctionCall': (None, [('identifier', N), ('args', N)]),
    'Arguments': (None, [('items', L)]),
    'DotAccessor': (None, [('node', N), ('identifier', N)]),
    'BracketAccessor': (None, [('node', N), ('expr', N)]),
    'PostfixExpr': ('op', [('value', N)]),
    'UnaryExpr': ('op', [('value', N)]),
    'BinOp': ('op', [('left', N), ('right', N)]),
    'Conditional': (None, [('predicate', N), ('consequent', N),
                           ('alternative', N)]),
    'Comma': (None, [('left', N), ('right', N)]),
}
VALUE_KINDS = {'Identifier', 'PropIdentifier', 'Number', 'String', 'Regex',
               'Boolean', 'Null', 'Debugger', 'EmptyStatement', 'Elision'}


class ProjectionError(Exception):
    pass


def kind_of(node):
    return type(node).__name__


def project(node, with_nodes=False):
    """real tree -> [kind, attr_or_value, child...]; None for absent child.
    with_nodes: returns (tree, [(path-preorder real node)]) for position work
    """
    order = []

    def conv(n):
        if n is None:
            return None
        k = kind_of(n)
        order.append(n)
        d = vars(n)
        if k in VALUE_KINDS:
            if 'value' not in d:
                raise ProjectionError('%s without value' % k)
            return [k, d['value']]
        if k not in PROJ:
            raise ProjectionError('unknown node kind %s' % k)
        attr, fields = PROJ[k]
        out = [k, d.get(attr, '') if attr else '']
        for name, mode in fields:
            if name not in d:
                raise ProjectionError('%s lacks attribute %s' % (k, name))
            v = d[name]
            if mode == L:
                if not isinstance(v, list):
                    raise ProjectionError('%s.%s is not a list' % (k, name))
                for i in v:
                    if i is None:
                        raise ProjectionError('%s.%s holds None' % (k, name))
                    out.append(conv(i))
            elif mode == O:
                out.append(conv(v) if v is not None else None)
            else:
                if v is None:
                    raise ProjectionError('%s.%s is None' % (k, name))
                out.append(conv(v))
        return out
    t = conv(node)
    return (t, order) if with_nodes else t


def render(t):
    if t is None:
        return '-'
    if len(t) == 2 and not isinstance(t[1], list) and t[0] in VALUE_KINDS:
        return '(%s %r)' % (t[0], t[1])
    inner = ' '.join(render(c) for c in t[2:])
    return '(%s%s%s)' % (t[0], (':' + t[1]) if t[1] else '',
                         (' ' + inner) if inner else '')


def first_diff(a, b, path='root'):
    """where two projected trees differ (for signatures / messages)"""
    if a is None or b is None:
        return None if a is b else (path, render(a), render(b))
    if a[0] != b[0]:
        return (path, a[0], b[0])
    if a[0] in VALUE_KINDS:
        return None if a[1] == b[1] else (path + '.value', repr(a[1]),
                                          repr(b[1]))
    if a[1] != b[1]:
        return (path + '.op', a[1], b[1])
    if len(a) != len(b):
        return (path + '.arity', str(len(a) - 2), str(len(b) - 2))
    for i, (x, y) in enumerate(zip(a[2:], b[2:])):
        d = first_diff(x, y, '%s/%s[%d]' % (path, a[0], i))
        if d:
            return d
    return None
