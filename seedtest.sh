#!/bin/sh
# usage: seedtest.sh <Cxx> [check-id]  : apply seeded/<Cxx>/patch.diff to /repo, run the check, undo (never committed)
P=$1; C=${2:-$1}
git -C /repo apply /verif/seeded/$P/patch.diff || exit 2
./check $C --tier ${TIER:-quick} 2>&1 | grep -v '^WARNING' | grep -E "^VIOLATION|signature:|^C[0-9]+ (quick|thorough)|MACHINERY" | head -${LINES_SHOWN:-6} | cut -c1-260
git -C /repo checkout -- .
git -C /verif checkout -- evidence 2>/dev/null
