#!/bin/sh
# usage: tools_mutant.sh <Cxx> <file-relative-to-src/calmjs/parse> <python-regex> <replacement> [tier]
# Runs a check against a scratch copy of /repo carrying a one-line mutation (binding self-test, DESIGN 4.4).
set -e
P=$1; F=$2; RE=$3; SUB=$4; TIER=${5:-quick}
D=$(mktemp -d /tmp/mutant.XXXXXX)
mkdir -p $D/src && cp -r /repo/src/calmjs $D/src/calmjs
/venv/bin/python - "$D/src/calmjs/parse/$F" "$RE" "$SUB" <<'PY'
import re, sys
p, rx, sub = sys.argv[1:4]
s = open(p).read()
n, k = re.subn(rx, sub, s, count=1, flags=re.M)
if not k:
    sys.exit('mutation did not apply')
open(p, 'w').write(n)
PY
set +e
VERIF_REPO=$D ./check $P --tier $TIER | grep -v '^WARNING' | tail -n 12
RC=$?
rm -rf $D
git -C /verif checkout -- evidence 2>/dev/null
exit 0
