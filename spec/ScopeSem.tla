------------------------------ MODULE ScopeSem ------------------------------
(***************************************************************************)
(* C07, Layer 1: what an identifier occurrence denotes (ECMA-262 5.1       *)
(* section 10: function scope, hoisting of var and function declarations,  *)
(* parameters, the own name of a named function expression in a scope of   *)
(* its own, the catch parameter scoped to the catch block) - and the       *)
(* judgement of a renaming.  Pure operators over                           *)
(*   sc    scopes  <<kind, parent>>  kind in program / function / fname /  *)
(*         catch; parent 0 for the program (scope 1)                       *)
(*   oc    occurrences <<scope, role, old, new>>  role in param / var /    *)
(*         funcdecl / fname / catchparam / ref / prop                      *)
(* used by ScopeTrace.tla (recorded renamings) and ObfuscatorImpl.tla (the *)
(* modelled obfuscator).                                                   *)
(***************************************************************************)
EXTENDS Integers, Sequences, FiniteSets, TLC

IsVarScope(sc, s) == sc[s][1] \in {"program", "function"}

RECURSIVE FuncScope(_, _)
FuncScope(sc, s) == IF IsVarScope(sc, s) THEN s ELSE FuncScope(sc, sc[s][2])

Name(o, which) == IF which = "old" THEN o[3] ELSE o[4]

\* names declared in scope s (with the old or the new spellings)
Declared(sc, oc, s, which) ==
    {Name(oc[i], which) : i \in {i \in 1..Len(oc) :
        LET o == oc[i] IN
        \/ (o[2] \in {"param", "funcdecl", "fname", "catchparam"} /\ o[1] = s)
        \/ (o[2] = "var" /\ IsVarScope(sc, s) /\ FuncScope(sc, o[1]) = s)}}

\* the scope chain of s, innermost first
RECURSIVE Chain(_, _)
Chain(sc, s) == IF s = 0 THEN <<>> ELSE <<s>> \o Chain(sc, sc[s][2])

\* the scope whose binding a name denotes when looked up from scope s
\* (0: free); decl is the table scope -> declared names.  Not recursive
\* itself: TLC evaluates the table once per use only then.
Lookup(sc, s, n, decl) ==
    LET ch == Chain(sc, s)
        hits == {k \in 1..Len(ch) : n \in decl[ch[k]]}
    IN IF hits = {} THEN 0
       ELSE ch[CHOOSE k \in hits : \A m \in hits : k <= m]

\* D: one tuple <<i, role, old, new, so, sn>> per occurrence, so / sn the
\* scope of the binding it denotes before / after (0 free, -1 property);
\* passed as an argument so that TLC computes it once
Judge(globals, reserved, D) ==
    LET V == {d \in D : d[2] # "prop"} IN
    IF \E d \in D : d[2] = "prop" /\ d[3] # d[4]
    THEN "property name renamed"
    ELSE IF \E d \in V : d[5] = 0 /\ d[3] # d[4]
    THEN "free name renamed"
    ELSE IF \E d \in V : (d[5] = 0) # (d[6] = 0)
    THEN "bound / free status changed"
    ELSE IF ~globals /\ \E d \in V : d[5] = 1 /\ d[3] # d[4]
    THEN "top-level name renamed"
    \* same variable after iff same before: old -> new denotation is a
    \* function and it is injective (checked on sets, not on all pairs)
    ELSE IF LET both == {<< <<d[5], d[3]>>, <<d[6], d[4]>> >> : d \in V} IN
            \/ Cardinality(both) # Cardinality({p[1] : p \in both})
            \/ Cardinality(both) # Cardinality({p[2] : p \in both})
    THEN "binding structure changed"
    ELSE IF \E d \in V : d[3] # d[4] /\ d[4] \in reserved
    THEN "generated name is a reserved word"
    ELSE "ok"

Den(sc, oc, declOld, declNew) ==
    {LET o == oc[i] IN
     <<i, o[2], o[3], o[4],
       IF o[2] = "prop" THEN -1 ELSE Lookup(sc, o[1], o[3], declOld),
       IF o[2] = "prop" THEN -1 ELSE Lookup(sc, o[1], o[4], declNew)>>
     : i \in 1..Len(oc)}

\* scope -> declared names, as an explicit function (k :> v @@ ...): TLC
\* would re-evaluate the body of [s \in ... |-> Declared(...)] at every
\* application
RECURSIVE Table(_, _, _, _)
Table(sc, oc, k, which) ==
    IF k = 1 THEN 1 :> Declared(sc, oc, 1, which)
    ELSE Table(sc, oc, k - 1, which) @@ (k :> Declared(sc, oc, k, which))

\* (tables and denotations are operator arguments, which TLC evaluates once)
ClauseOf(sc, oc, globals, reserved) ==
    Judge(globals, reserved,
          Den(sc, oc, Table(sc, oc, Len(sc), "old"),
                      Table(sc, oc, Len(sc), "new")))

\* the same program under calmjs' own scoping design: the name of a function
\* expression is declared (var-like) where the expression stands
AsDesigned(sc, oc) ==
    [i \in 1..Len(oc) |->
        IF oc[i][2] = "fname"
        THEN <<sc[oc[i][1]][2], "var", oc[i][3], oc[i][4]>>
        ELSE oc[i]]
=============================================================================
