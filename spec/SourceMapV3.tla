---------------------------- MODULE SourceMapV3 ----------------------------
(***************************************************************************)
(* Layer 1: what a Source Map V3 "mappings" value MEANS (decoder side),    *)
(* written from the format description, not from sourcemap.py.             *)
(*                                                                         *)
(* mappings = sequence of lines; line = sequence of segments; segment =    *)
(* sequence of 1, 4 or 5 integers, all RELATIVE:                           *)
(*   [1] generated column, relative to the previous segment of the same    *)
(*       line (to 0 for the first segment of a line)                       *)
(*   [2] source index, [3] source line, [4] source column, [5] name index: *)
(*       relative to the previous occurrence of that field anywhere before *)
(*       (they are NOT reset at a new line).                               *)
(* A 1-field segment says: from this generated column on, unmapped.        *)
(* Integers here are small (the harness keeps texts short), negative       *)
(* values are shifted by OFFSET so that Naturals suffices.                 *)
(***************************************************************************)
EXTENDS Integers, Sequences

\* running decoder state
Zero == [src |-> 0, sl |-> 0, sc |-> 0, nm |-> 0]

\* decode one line starting from accumulator acc; returns <<segments, acc'>>
\* an absolute segment is [gc, mapped, src, sl, sc, nm]  (nm = -1: none)
RECURSIVE DecLine(_, _, _, _)
DecLine(line, i, gc, acc) ==
    IF i > Len(line) THEN <<<<>>, acc>>
    ELSE LET seg == line[i]
             g   == gc + seg[1] IN
         IF Len(seg) = 1
         THEN LET rest == DecLine(line, i + 1, g, acc) IN
              << <<[gc |-> g, mapped |-> FALSE, src |-> -1, sl |-> -1,
                    sc |-> -1, nm |-> -1]>> \o rest[1], rest[2]>>
         ELSE LET a2 == [src |-> acc.src + seg[2], sl |-> acc.sl + seg[3],
                         sc  |-> acc.sc + seg[4],
                         nm  |-> IF Len(seg) = 5 THEN acc.nm + seg[5]
                                 ELSE acc.nm]
                  rest == DecLine(line, i + 1, g, a2) IN
              << <<[gc |-> g, mapped |-> TRUE, src |-> a2.src, sl |-> a2.sl,
                    sc |-> a2.sc,
                    nm |-> IF Len(seg) = 5 THEN a2.nm ELSE -1]>> \o rest[1],
                 rest[2]>>

RECURSIVE DecLines(_, _, _)
DecLines(m, i, acc) ==
    IF i > Len(m) THEN <<>>
    ELSE LET d == DecLine(m[i], 1, 0, acc)
         IN <<d[1]>> \o DecLines(m, i + 1, d[2])

Decode(m) == DecLines(m, 1, Zero)

WellFormed(m) ==
    \A i \in 1..Len(m) : \A j \in 1..Len(m[i]) : Len(m[i][j]) \in {1, 4, 5}

\* every index within range, generated columns non-decreasing in a line
InRange(dec, nSources, nNames) ==
    \A i \in 1..Len(dec) : \A j \in 1..Len(dec[i]) :
        LET s == dec[i][j] IN
        /\ s.gc >= 0
        /\ (j > 1 => dec[i][j - 1].gc <= s.gc)
        /\ (s.mapped => /\ s.src \in 0..(nSources - 1)
                        /\ s.sl >= 0 /\ s.sc >= 0
                        /\ (s.nm # -1 => s.nm \in 0..(nNames - 1)))

\* the segment a consumer uses for generated position (line, col): the last
\* one of that line at or before col (0 = none)
RECURSIVE LastAtOrBefore(_, _, _)
LastAtOrBefore(segs, col, j) ==
    IF j = 0 THEN 0
    ELSE IF segs[j].gc <= col THEN j ELSE LastAtOrBefore(segs, col, j - 1)

Lookup(dec, line, col) ==
    IF line > Len(dec) THEN [found |-> FALSE]
    ELSE LET j == LastAtOrBefore(dec[line], col, Len(dec[line])) IN
         IF j = 0 \/ ~dec[line][j].mapped THEN [found |-> FALSE]
         ELSE LET s == dec[line][j] IN
              [found |-> TRUE, exact |-> s.gc = col, src |-> s.src,
               sl |-> s.sl, sc |-> s.sc + (col - s.gc), nm |-> s.nm]
=============================================================================
