------------------------------ MODULE MapTrace ------------------------------
(***************************************************************************)
(* C09, code -> spec: what sourcemap.write produced for a fragment stream  *)
(* is decoded with SourceMapV3 and every explicitly positioned fragment is *)
(* looked up at the generated position it was written to.  One behaviour   *)
(* per record; the verdict names the first failing clause / probe.         *)
(*                                                                         *)
(* record: mappings (relative, as returned by write), nSources, nNames,    *)
(*   lineTerminators (LF / CR / CRLF in the written text), endsWithLT,     *)
(*   normalize, probes <<genLine, genCol, src, srcLine, srcCol, name>>     *)
(*   (0-based except genLine; name = -1 when the fragment was not renamed, *)
(*   src = -1 when the stream never said which file the fragment is from)  *)
(***************************************************************************)
EXTENDS SourceMapV3, TLC, Json, IOUtils

Trace == ndJsonDeserialize(IOEnv.TRACE_FILE)

VARIABLES tid, k, why
vars == <<tid, k, why>>

R(t) == Trace[t]
Dec(t) == Decode(R(t).mappings)

Init == /\ tid \in 1..Len(Trace) /\ k = 0 /\ why = "run"

Static ==
    LET r == R(tid) IN
    IF ~WellFormed(r.mappings) THEN "segment is not a 1/4/5-tuple"
    ELSE IF ~InRange(Dec(tid), r.nSources, r.nNames)
    THEN "index out of range or generated columns decrease"
    ELSE IF ~(Len(r.mappings) = r.lineTerminators + 1
              \/ (r.endsWithLT /\ Len(r.mappings) = r.lineTerminators))
    THEN "number of mapping lines differs from the number of text lines"
    ELSE "ok"

Probe(p) ==
    LET r == R(tid)
        f == Lookup(Dec(tid), p[1], p[2]) IN
    IF ~f.found THEN "fragment position is unmapped"
    ELSE IF ~r.normalize /\ ~f.exact THEN "no segment at the fragment position"
    ELSE IF p[3] # -1 /\ f.src # p[3] THEN "source"
    ELSE IF f.sl # p[4] THEN "source line"
    ELSE IF f.sc # p[5] THEN "source column"
    ELSE IF p[6] # -1 /\ f.nm # p[6] THEN "name"
    ELSE "ok"

Step ==
    /\ why = "run"
    /\ IF k = 0
       THEN (IF Static = "ok" THEN k' = 1 /\ UNCHANGED why
             ELSE why' = Static /\ UNCHANGED k)
       ELSE IF k > Len(R(tid).probes) THEN why' = "ok" /\ UNCHANGED k
       ELSE LET v == Probe(R(tid).probes[k]) IN
            IF v = "ok" THEN k' = k + 1 /\ UNCHANGED why
            ELSE why' = v /\ UNCHANGED k
    /\ UNCHANGED tid

Spec == Init /\ [][Step]_vars

Verdict == why # "run" => PrintT(ToJson(<<R(tid).id, why, k>>))
=============================================================================
