--------------------------- MODULE ObfuscatorImpl ---------------------------
(***************************************************************************)
(* C07, Layer 2: the name obfuscator as it is implemented                  *)
(* (handlers/obfuscation.py: Scope / CatchScope bookkeeping driven by the  *)
(* Declare / Resolve / PushScope / PopScope / PushCatch / PopCatch /       *)
(* ResolveFuncName markers of unparsers/es5.py, close() leaking reference  *)
(* counts to the parent, _reserved_symbols, build_remap_symbols ordered by *)
(* (count, name) descending, NameGenerator, resolve()), run on every       *)
(* abstract program of ScopeGen.tla, and judged by the scope semantics of  *)
(* ScopeSem.tla (Layer 1).                                                 *)
(*                                                                         *)
(* Emit prints, per program: the tokens, the ES5 scope table and           *)
(* occurrence list (the harness renders text from the tokens and takes     *)
(* scopes / occurrences from here), and per configuration the names the    *)
(* modelled obfuscator assigns.  The harness replays each program into the *)
(* real printers: the real names must equal the modelled ones (drift       *)
(* otherwise), and are judged by ScopeTrace.tla.                           *)
(***************************************************************************)
EXTENDS ScopeGen, ScopeSem

\* Python's order of the program names (sorted() of str), and the order in
\* which NameGenerator yields names (itertools.product over ID_CHARS, length
\* 1 only: the programs here never need more than 53 names)
CONSTANTS NameOrder, GenNames

Rank(n) == CHOOSE i \in 1..Len(NameOrder) : NameOrder[i] = n

(***************************************************************************)
(* ES5 side: scope table and occurrences of a token list (Layer 1 input)   *)
(***************************************************************************)
Top(st) == st.stack[Len(st.stack)]
Pop(s) == SubSeq(s, 1, Len(s) - 1)

RECURSIVE EnclVar(_, _)
EnclVar(sc, s) == IF sc[s][1] \in {"program", "function"} THEN s
                  ELSE EnclVar(sc, sc[s][2])

R0 == [sc |-> << <<"program", 0>> >>, oc |-> <<>>, stack |-> <<1>>]

RStep(st, tok) ==
    LET k == tok[1]  n == tok[2]  top == Top(st) IN
    CASE k = "P" -> [st EXCEPT !.oc = Append(@, <<top, "param", n>>)]
      [] k = "V" -> [st EXCEPT !.oc = Append(@, <<top, "var", n>>)]
      [] k = "R" -> [st EXCEPT !.oc = Append(@, <<top, "ref", n>>)]
      [] k = "p" -> [st EXCEPT !.oc = Append(@, <<top, "prop", n>>)]
      [] k = "F" ->
           LET id == Len(st.sc) + 1 IN
           [sc |-> Append(st.sc, <<"function", top>>),
            oc |-> Append(st.oc, <<EnclVar(st.sc, top), "funcdecl", n>>),
            stack |-> Append(st.stack, id)]
      [] k = "E" /\ n # "" ->
           LET fid == Len(st.sc) + 1 IN
           [sc |-> st.sc \o << <<"fname", top>>, <<"function", fid>> >>,
            oc |-> Append(st.oc, <<fid, "fname", n>>),
            stack |-> st.stack \o <<fid, fid + 1>>]
      [] k = "E" /\ n = "" ->
           [st EXCEPT !.sc = Append(@, <<"function", top>>),
                      !.stack = Append(@, Len(st.sc) + 1)]
      [] k = "C" ->
           LET id == Len(st.sc) + 1 IN
           [sc |-> Append(st.sc, <<"catch", top>>),
            oc |-> Append(st.oc, <<id, "catchparam", n>>),
            stack |-> Append(st.stack, id)]
      [] k = ")" ->
           \* a named function expression closes its name scope with it
           LET s1 == Pop(st.stack) IN
           IF st.sc[top][1] = "function" /\ st.sc[s1[Len(s1)]][1] = "fname"
           THEN [st EXCEPT !.stack = Pop(s1)]
           ELSE [st EXCEPT !.stack = s1]

RECURSIVE RFold(_, _, _)
RFold(st, toks, i) ==
    IF i > Len(toks) THEN st ELSE RFold(RStep(st, toks[i]), toks, i + 1)

Render(toks) == RFold(R0, toks, 1)

(***************************************************************************)
(* Implementation side.  A scope is a record                               *)
(*   kind "S" (Scope) / "C" (CatchScope), parent (0: none),                *)
(*   keys  names in referenced_symbols, cnt their counts,                  *)
(*   decl  local_declared_symbols (kind S), catch / usage (kind C)         *)
(* Scope 1 is the global scope.                                            *)
(***************************************************************************)
ZeroCnt == [n \in Names |-> 0]
NewScope(kind, parent, catch) ==
    [kind |-> kind, parent |-> parent, keys |-> {}, cnt |-> ZeroCnt,
     decl |-> {}, catch |-> catch, usage |-> 0]

\* Scope.declare / CatchScope.declare (nothing is declared in a catch scope:
\* "it's the parents problem")
RECURSIVE Declare(_, _, _)
Declare(T, s, n) ==
    IF T[s].kind = "C" THEN Declare(T, T[s].parent, n)
    ELSE [T EXCEPT ![s].decl = @ \cup {n}, ![s].keys = @ \cup {n}]

\* Scope.reference / CatchScope.reference
RECURSIVE Reference(_, _, _, _)
Reference(T, s, n, c) ==
    IF T[s].kind = "C"
    THEN IF n = T[s].catch THEN [T EXCEPT ![s].usage = @ + c]
         ELSE Reference(T, T[s].parent, n, c)
    ELSE [T EXCEPT ![s].keys = @ \cup {n}, ![s].cnt[n] = @ + c]

\* Scope.close: leak the references to names not declared here to the
\* parent, one by one (CatchScope.close does nothing)
RECURSIVE Leak(_, _, _)
Leak(T, s, todo) ==
    IF todo = {} THEN T
    ELSE LET n == CHOOSE x \in todo : TRUE IN
         Leak(Reference(T, T[s].parent, n, T[s].cnt[n]), s, todo \ {n})

Close(T, s) ==
    IF T[s].kind = "C" \/ T[s].parent = 0 THEN T
    ELSE Leak(T, s, T[s].keys \ T[s].decl)

\* the prewalk: st = [T, stack, ids]  ids: scope in which each Identifier
\* node was registered (register_reference), in source order, 0 for a
\* property name (no Resolve marker)
W0 == [T |-> <<NewScope("S", 0, "")>>, stack |-> <<1>>, ids |-> <<>>]

WStep(st, tok, shadow) ==
    LET k == tok[1]  n == tok[2]  cur == Top(st) IN
    CASE k \in {"P", "V"} ->
           \* Declare, then the Identifier is walked: Resolve registers it
           [st EXCEPT !.T = Reference(Declare(st.T, cur, n), cur, n, 1),
                      !.ids = Append(@, cur)]
      [] k = "R" ->
           [st EXCEPT !.T = Reference(st.T, cur, n, 1),
                      !.ids = Append(@, cur)]
      [] k = "p" -> [st EXCEPT !.ids = Append(@, 0)]
      [] k \in {"F", "E"} ->
           \* FuncDecl and FuncExpr alike: Declare('identifier') and the
           \* identifier itself belong to the scope the function stands in,
           \* then PushScope, then ResolveFuncName (shadow_reference) unless
           \* shadow_funcname
           LET id == Len(st.T) + 1
               T1 == IF n = "" THEN st.T
                     ELSE Reference(Declare(st.T, cur, n), cur, n, 1)
               T2 == Append(T1, NewScope("S", cur, ""))
               T3 == IF n = "" \/ shadow THEN T2 ELSE Reference(T2, id, n, 1)
           IN [T |-> T3, stack |-> Append(st.stack, id),
               ids |-> IF n = "" THEN st.ids ELSE Append(st.ids, cur)]
      [] k = "C" ->
           LET id == Len(st.T) + 1
               T2 == Append(st.T, NewScope("C", cur, n))
           IN [T |-> Reference(T2, id, n, 1), stack |-> Append(st.stack, id),
               ids |-> Append(st.ids, id)]
      [] k = ")" ->
           [st EXCEPT !.T = Close(st.T, cur), !.stack = Pop(st.stack)]

RECURSIVE WFold(_, _, _, _)
WFold(st, toks, i, shadow) ==
    IF i > Len(toks) THEN st
    ELSE WFold(WStep(st, toks[i], shadow), toks, i + 1, shadow)

Walk(toks, shadow) == WFold(W0, toks, 1, shadow)

\* ---- derived properties of the scope classes ---------------------------
RECURSIVE Keys(_, _)
Keys(T, s) == IF T[s].kind = "C" THEN {T[s].catch} \cup Keys(T, T[s].parent)
              ELSE T[s].keys
\* CatchScope.referenced_symbols: the parent's entry wins
RECURSIVE Count(_, _, _)
Count(T, s, n) ==
    IF T[s].kind = "C"
    THEN IF n \in Keys(T, T[s].parent) THEN Count(T, T[s].parent, n)
         ELSE T[s].usage
    ELSE T[s].cnt[n]
RECURSIVE LocalDecl(_, _)
LocalDecl(T, s) ==
    IF T[s].kind = "C" THEN LocalDecl(T, T[s].parent) \cup {T[s].catch}
    ELSE T[s].decl
RECURSIVE DeclaredSyms(_, _)
DeclaredSyms(T, s) ==
    IF s = 0 THEN {}
    ELSE (IF T[s].kind = "C" THEN {T[s].catch} ELSE T[s].decl)
         \cup DeclaredSyms(T, T[s].parent)
GlobalSyms(T, s) == {n \in Keys(T, s) : n \notin DeclaredSyms(T, s)}
Children(T, s) == {c \in 1..Len(T) : T[c].parent = s}
RECURSIVE GlobalInChildren(_, _)
GlobalInChildren(T, s) ==
    UNION {GlobalSyms(T, c) \cup GlobalInChildren(T, c) : c \in Children(T, s)}
NonLocal(T, s) ==
    IF T[s].kind = "C" THEN Keys(T, s) \ {T[s].catch}
    ELSE T[s].keys \ T[s].decl

\* remap: scope -> set of <<old, new>> ; Scope.resolve
RECURSIVE Resolve(_, _, _, _)
Resolve(T, remap, s, n) ==
    IF s = 0 THEN n
    ELSE IF \E p \in remap[s] : p[1] = n
         THEN (CHOOSE p \in remap[s] : p[1] = n)[2]
         ELSE Resolve(T, remap, T[s].parent, n)

Reserved(T, remap, s) ==
    GlobalInChildren(T, s) \cup GlobalSyms(T, s)
    \cup {Resolve(T, remap, s, v) : v \in NonLocal(T, s)}

\* the names a scope renames, in the order build_remap_symbols visits them:
\* reversed(sorted(referenced_symbols.items(), key=itemgetter(1, 0)))
Before(T, s, a, b) ==      \* a is visited before b
    \/ Count(T, s, a) > Count(T, s, b)
    \/ Count(T, s, a) = Count(T, s, b) /\ Rank(a) > Rank(b)
RECURSIVE Ordered(_, _, _)
Ordered(T, s, todo) ==
    IF todo = {} THEN <<>>
    ELSE LET a == CHOOSE x \in todo : \A y \in todo \ {x} : Before(T, s, x, y)
         IN <<a>> \o Ordered(T, s, todo \ {a})

\* NameGenerator(skip): the generated names not in skip, in order
Fresh(skip) == SelectSeq(GenNames, LAMBDA g : g \notin skip)

\* build_remap_symbols, top-down; -> remap
RECURSIVE Build(_, _, _, _)
Build(T, remap, todo, childrenOnly) ==
    IF todo = {} THEN remap
    ELSE
    LET s  == CHOOSE x \in todo : TRUE
        r1 ==
          IF T[s].kind = "C"
          THEN IF T[s].catch \in LocalDecl(T, T[s].parent)
               THEN [remap EXCEPT ![s] =
                       {<<T[s].catch,
                          Resolve(T, remap, T[s].parent, T[s].catch)>>}]
               ELSE [remap EXCEPT ![s] =
                       {<<T[s].catch, Fresh(Reserved(T, remap, s))[1]>>}]
          ELSE IF childrenOnly THEN remap
          ELSE LET names == Ordered(T, s, T[s].keys \cap T[s].decl)
                   fresh == Fresh(Reserved(T, remap, s))
               IN [remap EXCEPT ![s] =
                     {<<names[i], fresh[i]>> : i \in 1..Len(names)}]
        r2 == Build(T, r1, Children(T, s), FALSE)
    IN Build(T, r2, todo \ {s}, childrenOnly)

Remap(T, globals) ==
    Build(T, [s \in 1..Len(T) |-> {}], {1}, ~globals)

\* the new spelling of every occurrence
NewNames(toks, globals, shadow) ==
    LET w  == Walk(toks, shadow)
        rm == Remap(w.T, globals)
        oc == Render(toks).oc
    IN [i \in 1..Len(oc) |->
          IF w.ids[i] = 0 THEN oc[i][3]
          ELSE Resolve(w.T, rm, w.ids[i], oc[i][3])]

(***************************************************************************)
(* Properties of the modelled obfuscator (checked on finished programs)    *)
(***************************************************************************)
Configs == {<<FALSE, FALSE>>, <<TRUE, FALSE>>, <<FALSE, TRUE>>, <<TRUE, TRUE>>}

Occs(toks, globals, shadow) ==
    LET r  == Render(toks)
        nn == NewNames(toks, globals, shadow)
    IN [i \in 1..Len(r.oc) |-> Append(r.oc[i], nn[i])]

Verdict(toks, globals, shadow) ==
    LET r  == Render(toks)
        oc == Occs(toks, globals, shadow)
        v  == ClauseOf(r.sc, oc, globals, {})
    IN IF v = "ok" THEN "ok"
       ELSE IF ClauseOf(r.sc, AsDesigned(r.sc, oc), globals, {}) = "ok"
       THEN "deviation"      \* the known finding: name of a function
                             \* expression bound in the enclosing scope
       ELSE v

\* the modelled algorithm is a consistent, capture-free renaming of every
\* program - up to the one named design deviation
CaptureFree ==
    Done => \A c \in Configs : Verdict(out, c[1], c[2]) \in {"ok", "deviation"}

\* the occurrence list and the registration list line up
Aligned ==
    Done => Len(Walk(out, FALSE).ids) = Len(Render(out).oc)

EmitModel ==
    Done => PrintT(ToJson(
        [toks |-> out, sc |-> Render(out).sc, oc |-> Render(out).oc,
         \* first letter: obfuscate_globals, second: shadow_funcname
         names |-> [ff |-> NewNames(out, FALSE, FALSE),
                    tf |-> NewNames(out, TRUE, FALSE),
                    ft |-> NewNames(out, FALSE, TRUE),
                    tt |-> NewNames(out, TRUE, TRUE)]]))
=============================================================================
