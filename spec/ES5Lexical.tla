----------------------------- MODULE ES5Lexical -----------------------------
(***************************************************************************)
(* Layer 1: the lexical grammar of ECMA-262 5.1 section 7 as a             *)
(* longest-match tokeniser over CHARACTER CLASSES, with the goal symbol    *)
(* (InputElementDiv / InputElementRegExp) an input.                        *)
(*                                                                         *)
(* Used as the no-fusion oracle of C01 / C02: two tokens A and B that an   *)
(* unparser writes next to each other keep their identity iff tokenising   *)
(* the concatenation gives back exactly A and B (Fuses below).  Nothing    *)
(* here is taken from the implementation's regular expressions.            *)
(***************************************************************************)
EXTENDS Naturals, Sequences, TLC

\* character classes (the harness maps code points to these; DESIGN 3.1)
cL     == 1    \* identifier letter other than the ones below, $ _ and
               \* non-ASCII letters
cHEX   == 2    \* a-d f A-D F   (letters that are also hex digits)
cE     == 3    \* e E
cX     == 4    \* x X
cZERO  == 5    \* 0
cD17   == 6    \* 1-7
cD89   == 7    \* 8 9
cDOT   == 8
cSQ    == 9    \* '
cDQ    == 10   \* "
cBS    == 11   \* backslash
cSLASH == 12
cSTAR  == 13
cPLUS  == 14
cMINUS == 15
cEQ    == 16
cLT    == 17   \* <
cGT    == 18   \* >
cBANG  == 19
cAMP   == 20
cPIPE  == 21
cPCT   == 22
cCARET == 23
cP1    == 24   \* punctuators that never combine: ( ) { } [ ] ; , : ? ~
cWS    == 25   \* white space
cNL    == 26   \* line terminator
cOTHER == 27   \* anything else (only legal inside strings, comments, regex)
cLBRK  == 28   \* [   (kept apart: character classes in regular expressions)
cRBRK  == 29   \* ]
cMARK  == 30   \* combining mark / digit-like / connector / ZWNJ / ZWJ:
               \* identifier part but not identifier start

IsDigit(c) == c \in {cZERO, cD17, cD89}
IsHexDigit(c) == IsDigit(c) \/ c \in {cHEX, cE}
IdStart(c) == c \in {cL, cHEX, cE, cX}
IdPart(c) == IdStart(c) \/ IsDigit(c) \/ c = cMARK

At(s, i) == IF i <= Len(s) THEN s[i] ELSE 0      \* 0 = end of input

Classes == 1..30
DigitSet == {cZERO, cD17, cD89}
HexSet == DigitSet \cup {cHEX, cE}
IdPartSet == {cL, cHEX, cE, cX, cMARK} \cup DigitSet

RECURSIVE While(_, _, _)
\* first index >= i whose character is not in the set S
While(s, i, S) == IF i <= Len(s) /\ s[i] \in S THEN While(s, i + 1, S) ELSE i

(* ---- numeric literals (7.8.3) -------------------------------------- *)
Exponent(s, i) ==       \* i is after the mantissa; returns end of literal
    IF At(s, i) = cE
    THEN LET j == IF At(s, i + 1) \in {cPLUS, cMINUS} THEN i + 2 ELSE i + 1
         IN IF IsDigit(At(s, j)) THEN While(s, j, DigitSet) ELSE i
    ELSE i

NumberEnd(s, i) ==
    IF At(s, i) = cDOT
    THEN Exponent(s, While(s, i + 1, DigitSet))            \* .5  .5e3
    ELSE IF At(s, i) = cZERO /\ At(s, i + 1) = cX /\ IsHexDigit(At(s, i + 2))
    THEN While(s, i + 2, HexSet)                      \* 0x1F
    ELSE IF At(s, i) = cZERO /\ At(s, i + 1) \in {cZERO, cD17}
    THEN While(s, i + 1, {cZERO, cD17})  \* legacy octal 017
    ELSE LET j == IF At(s, i) = cZERO THEN i + 1 ELSE While(s, i, DigitSet)
             k == IF At(s, j) = cDOT THEN While(s, j + 1, DigitSet) ELSE j
         IN Exponent(s, k)

(* ---- string literals (7.8.4) --------------------------------------- *)
RECURSIVE StringEnd(_, _, _)
\* i is inside the string (after the opening quote q); 0 = unterminated
StringEnd(s, i, q) ==
    IF i > Len(s) THEN 0
    ELSE IF s[i] = q THEN i + 1
    ELSE IF s[i] = cNL THEN 0
    ELSE IF s[i] = cBS THEN (IF i + 1 > Len(s) THEN 0 ELSE StringEnd(s, i + 2, q))
    ELSE StringEnd(s, i + 1, q)

(* ---- regular expression literals (7.8.5) --------------------------- *)
RECURSIVE RegexBodyEnd(_, _, _)
\* i is inside the body; inClass: inside [...]; 0 = not a regex
RegexBodyEnd(s, i, inClass) ==
    IF i > Len(s) \/ s[i] = cNL THEN 0
    ELSE IF s[i] = cBS
         THEN (IF i + 1 > Len(s) \/ s[i + 1] = cNL THEN 0
               ELSE RegexBodyEnd(s, i + 2, inClass))
    ELSE IF inClass THEN RegexBodyEnd(s, i + 1, s[i] # cRBRK)
    ELSE IF s[i] = cLBRK THEN RegexBodyEnd(s, i + 1, TRUE)
    ELSE IF s[i] = cSLASH THEN While(s, i + 1, IdPartSet)     \* flags
    ELSE RegexBodyEnd(s, i + 1, FALSE)

RegexEnd(s, i) ==        \* s[i] is the opening slash
    IF At(s, i + 1) \in {cSTAR, cSLASH, 0} THEN 0 ELSE RegexBodyEnd(s, i + 1, FALSE)

(* ---- comments (7.4) ------------------------------------------------- *)
RECURSIVE BlockCommentEnd(_, _)
BlockCommentEnd(s, i) ==
    IF i + 1 > Len(s) THEN 0
    ELSE IF s[i] = cSTAR /\ s[i + 1] = cSLASH THEN i + 2
    ELSE BlockCommentEnd(s, i + 1)

(* ---- punctuators (7.7), longest match ------------------------------ *)
PunctEnd(s, i) ==
    LET a == At(s, i)  b == At(s, i + 1)  c == At(s, i + 2)  d == At(s, i + 3) IN
    CASE a = cP1 \/ a = cLBRK \/ a = cRBRK \/ a = cDOT -> i + 1
      [] a = cPLUS  -> IF b \in {cPLUS, cEQ} THEN i + 2 ELSE i + 1
      [] a = cMINUS -> IF b \in {cMINUS, cEQ} THEN i + 2 ELSE i + 1
      [] a \in {cSTAR, cPCT, cCARET} -> IF b = cEQ THEN i + 2 ELSE i + 1
      [] a = cAMP   -> IF b \in {cAMP, cEQ} THEN i + 2 ELSE i + 1
      [] a = cPIPE  -> IF b \in {cPIPE, cEQ} THEN i + 2 ELSE i + 1
      [] a \in {cEQ, cBANG} ->
            IF b = cEQ THEN (IF c = cEQ THEN i + 3 ELSE i + 2) ELSE i + 1
      [] a = cLT -> IF b = cLT THEN (IF c = cEQ THEN i + 3 ELSE i + 2)
                    ELSE IF b = cEQ THEN i + 2 ELSE i + 1
      [] a = cGT -> IF b = cGT
                    THEN (IF c = cGT THEN (IF d = cEQ THEN i + 4 ELSE i + 3)
                          ELSE IF c = cEQ THEN i + 3 ELSE i + 2)
                    ELSE IF b = cEQ THEN i + 2 ELSE i + 1
      [] a = cSLASH -> IF b = cEQ THEN i + 2 ELSE i + 1
      [] OTHER -> 0

(* ---- one input element ---------------------------------------------- *)
\* <<kind, end>>; kind in WORD NUM STR REGEX PUNCT LINECMT BLOCKCMT WS NL ERR
NextTok(s, i, regexGoal) ==
    LET a == s[i]  b == At(s, i + 1) IN
    IF a = cWS THEN <<"WS", While(s, i, {cWS})>>
    ELSE IF a = cNL THEN <<"NL", i + 1>>
    ELSE IF IdStart(a) THEN <<"WORD", While(s, i, IdPartSet)>>
    ELSE IF IsDigit(a) \/ (a = cDOT /\ IsDigit(b))
    THEN LET e == NumberEnd(s, i) IN
         \* 7.8.3: the character after a numeric literal must not be an
         \* identifier start or a decimal digit
         IF IdStart(At(s, e)) \/ IsDigit(At(s, e)) THEN <<"ERR", e>>
         ELSE <<"NUM", e>>
    ELSE IF a \in {cSQ, cDQ}
    THEN LET e == StringEnd(s, i + 1, a) IN
         IF e = 0 THEN <<"ERR", i + 1>> ELSE <<"STR", e>>
    ELSE IF a = cSLASH /\ b = cSLASH
    THEN <<"LINECMT", While(s, i, Classes \ {cNL})>>
    ELSE IF a = cSLASH /\ b = cSTAR
    THEN LET e == BlockCommentEnd(s, i + 2) IN
         IF e = 0 THEN <<"ERR", i + 2>> ELSE <<"BLOCKCMT", e>>
    ELSE IF a = cSLASH /\ regexGoal
    THEN LET e == RegexEnd(s, i) IN
         IF e = 0 THEN <<"ERR", i + 1>> ELSE <<"REGEX", e>>
    ELSE LET e == PunctEnd(s, i) IN
         IF e = 0 THEN <<"ERR", i + 1>> ELSE <<"PUNCT", e>>

(* ---- the no-fusion oracle ------------------------------------------- *)
\* A and B are the character classes of two tokens of kinds ka and kb that
\* are written next to each other with the separator sep (white space
\* classes, possibly empty) between them.  They keep their identity iff
\* tokenising A sep B (goal: regex iff the token is a REGEX) gives A, then
\* only white space, then a token that starts where B starts, has B's kind
\* and does not end before B ends (what follows B is the next pair's job).
RECURSIVE SkipWS(_, _)
SkipWS(s, i) == IF i <= Len(s) /\ s[i] \in {cWS, cNL} THEN SkipWS(s, i + 1) ELSE i

Separate(A, ka, sep, B, kb) ==
    LET s  == A \o sep \o B
        t1 == NextTok(s, 1, ka = "REGEX")
        j  == SkipWS(s, t1[2])
    IN /\ t1[1] = ka /\ t1[2] = Len(A) + 1
       /\ j = Len(A) + Len(sep) + 1
       /\ LET t2 == NextTok(s, j, kb = "REGEX") IN
            t2[1] = kb /\ t2[2] = Len(s) + 1

Fuses(A, ka, sep, B, kb) == ~Separate(A, ka, sep, B, kb)
=============================================================================
