------------------------------ MODULE JsonValue ------------------------------
(***************************************************************************)
(* C19: the JSON-compatible literals an ES5 program can bind to a name, as *)
(* a top-down generator (same style as ES5Grammar).  A behaviour builds    *)
(* one value; its product `out` is the value in document order:            *)
(*   "[" ... "]"   "{" "k:<kind>" value ... "}"   and leaves               *)
(*   "null" "true" "false" "n:<kind>" "s:<kind>"                           *)
(* The abstract value IS the expected result: the harness spells each      *)
(* kind (number and string spellings, key spellings) and the JSON reading  *)
(* of the spelled text is what ast_to_dict must return.                    *)
(***************************************************************************)
EXTENDS Naturals, Sequences, TLC, Json

CONSTANTS MaxLeaves,   \* at most this many nodes (leaves and containers)
          MaxDepth,    \* nesting depth of arrays / objects
          MaxWidth,    \* items per array / object
          NumKinds, StrKinds, KeyKinds

VARIABLES stack, out, leaves
vars == <<stack, out, leaves>>

\* stack symbols: <<"V", depth>> a value; <<"I", depth, n>> up to n more
\* array items; <<"P", depth, n>> up to n more properties; <<"e", text>>
Leaves == {<<"e", "null">>, <<"e", "true">>, <<"e", "false">>}
          \cup {<<"e", "n:" \o k>> : k \in NumKinds}
          \cup {<<"e", "s:" \o k>> : k \in StrKinds}

Init == stack = << <<"V", 0>> >> /\ out = <<>> /\ leaves = 0

Emit1 == /\ stack # <<>> /\ Head(stack)[1] = "e"
         /\ out' = Append(out, Head(stack)[2])
         /\ stack' = Tail(stack) /\ UNCHANGED leaves

ExpandValue ==
    /\ stack # <<>> /\ Head(stack)[1] = "V"
    /\ LET d == Head(stack)[2] IN
       \/ /\ leaves < MaxLeaves
          /\ \E l \in Leaves : stack' = <<l>> \o Tail(stack)
          /\ leaves' = leaves + 1
       \/ /\ d < MaxDepth /\ leaves < MaxLeaves    \* containers count too
          /\ stack' = << <<"e", "[">>, <<"I", d + 1, MaxWidth>>,
                         <<"e", "]">> >> \o Tail(stack)
          /\ leaves' = leaves + 1
       \/ /\ d < MaxDepth /\ leaves < MaxLeaves
          /\ stack' = << <<"e", "{">>, <<"P", d + 1, MaxWidth>>,
                         <<"e", "}">> >> \o Tail(stack)
          /\ leaves' = leaves + 1
    /\ UNCHANGED out

ExpandItems ==
    /\ stack # <<>> /\ Head(stack)[1] = "I"
    /\ LET d == Head(stack)[2]  n == Head(stack)[3] IN
       \/ stack' = Tail(stack)
       \/ /\ n > 0 /\ leaves < MaxLeaves
          /\ stack' = << <<"V", d>>, <<"I", d, n - 1>> >> \o Tail(stack)
    /\ UNCHANGED <<out, leaves>>

ExpandProps ==
    /\ stack # <<>> /\ Head(stack)[1] = "P"
    /\ LET d == Head(stack)[2]  n == Head(stack)[3] IN
       \/ stack' = Tail(stack)
       \/ /\ n > 0 /\ leaves < MaxLeaves
          /\ \E k \in KeyKinds :
                stack' = << <<"e", "k:" \o k>>, <<"V", d>>,
                            <<"P", d, n - 1>> >> \o Tail(stack)
    /\ UNCHANGED <<out, leaves>>

Next == Emit1 \/ ExpandValue \/ ExpandItems \/ ExpandProps
Spec == Init /\ [][Next]_vars

Done == stack = <<>>
EmitValue == Done => PrintT(ToJson(out))
=============================================================================
