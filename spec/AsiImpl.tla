------------------------------ MODULE AsiImpl ------------------------------
(***************************************************************************)
(* C04, Layer 2: where the implementation supplies semicolons -             *)
(*   lexers/es5.py  Lexer._get_update_token / _token: a line terminator     *)
(*       (or a comment holding one) after break / continue / return /      *)
(*       throw - unless the word follows a dot - is remembered, and the     *)
(*       next real token, if it is not `;` or `:`, is pushed back behind an *)
(*       AUTOSEMI token (restricted productions, 7.9.1);                    *)
(*       every real token notes whether a line terminator preceded it;      *)
(*   parsers/es5.py Parser.p_error -> Lexer.auto_semi: when the grammar     *)
(*       cannot take a token, a semicolon is inserted in front of it iff it *)
(*       is the end of input, a `}`, or was preceded by a line terminator - *)
(* run on every sentence of the derivation machine ES5Grammar.tla and       *)
(* compared with the virtual semicolons 7.9 dictates (Layer 1: the <<"V">>  *)
(* items of the product).                                                   *)
(*                                                                         *)
(* The parser "cannot take" a token exactly where the derivation has a     *)
(* virtual semicolon that the restricted-production path did not already    *)
(* supply: the sentence is derivable, so up to that point the parser        *)
(* follows the derivation.                                                  *)
(*                                                                         *)
(* EmitAsi prints, per sentence, the product, the line-break flags and the  *)
(* real-token indices in front of which the model inserts a semicolon       *)
(* (n + 1: at the end of input), each with the path that supplied it; the   *)
(* harness compares them with the AUTOSEMI tokens the real lexer handed to  *)
(* the parser (spec -> code conformance).                                   *)
(***************************************************************************)
EXTENDS ES5Grammar

RestrictedWords == {"break", "continue", "return", "throw"}

A0 == [cur |-> "", curDot |-> FALSE,   \* last real token; did it follow a dot
       pend |-> FALSE,                 \* restricted_line_terminator is set
       virt |-> FALSE,                 \* the derivation has a <<"V">> here
       n |-> 0, res |-> <<>>, bad |-> <<>>]

AStep(st, it, nl) ==
    IF it[1] = "V" THEN [st EXCEPT !.virt = TRUE]
    ELSE IF it[1] # "T" THEN st
    ELSE
    LET i    == st.n + 1
        c    == it[2]
        lt   == i \in nl
        \* _get_update_token: the line terminator in front of this token
        pnd  == st.pend \/ (lt /\ st.cur \in RestrictedWords /\ ~st.curDot)
        \* _token: push the token back behind an AUTOSEMI
        viaR == pnd /\ c \notin {";", ":"}
        \* p_error / auto_semi, if the grammar cannot take the token
        needE == st.virt /\ ~viaR
        viaE == needE /\ c # ";" /\ (c = "}" \/ lt)
        res1 == IF viaR THEN Append(st.res, <<i, "restricted">>)
                ELSE IF viaE THEN Append(st.res, <<i, "error">>)
                ELSE st.res
        \* the model and the grammar disagree:
        bad1 == IF needE /\ ~viaE
                THEN Append(st.bad, <<i, "no semicolon can be inserted">>)
                ELSE IF viaR /\ ~st.virt
                THEN Append(st.bad, <<i, "semicolon the grammar does not have">>)
                ELSE st.bad
    IN [cur |-> c, curDot |-> st.cur = ".", pend |-> FALSE, virt |-> FALSE,
        n |-> i, res |-> res1, bad |-> bad1]

RECURSIVE AFold(_, _, _, _)
AFold(st, o, k, nl) ==
    IF k > Len(o) THEN st ELSE AFold(AStep(st, o[k], nl), o, k + 1, nl)

\* at the end of input auto_semi(None) always supplies the semicolon; a
\* pending restricted line terminator does nothing there
AtEnd(st) ==
    IF st.virt THEN [st EXCEPT !.res = Append(@, <<st.n + 1, "error">>)]
    ELSE st

Asi(o, nl) == AtEnd(AFold(A0, o, 1, nl))

\* every virtual semicolon of every derivable sentence is supplied, and no
\* other one
AsiOK == Complete => Asi(out, nls).bad = <<>>

EmitAsi ==
    Complete => PrintT(ToJson(<<out, SetToSeq(nls), Asi(out, nls).res>>))
=============================================================================
