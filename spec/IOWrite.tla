------------------------------- MODULE IOWrite -------------------------------
(***************************************************************************)
(* C18.  Layer 1 (StreamContract, the invariants at the end of the module) *)
(* and Layer 2 (the step sequence of calmjs.parse.io.write / io.read with  *)
(* every point at which a call into a stream, a stream factory, the        *)
(* unparser or the parser can raise).                                      *)
(*                                                                         *)
(* TLC enumerates every arrangement x fault point, checks that the         *)
(* modelled step sequence satisfies the contract on every path, and hands  *)
(* each behaviour (arrangement, fault, expected event log) to the harness, *)
(* which replays it against the real helpers with instrumented stream      *)
(* doubles (fault enumeration); the recorded logs are validated by         *)
(* StreamTrace.tla.                                                        *)
(*                                                                         *)
(* streams: "out" (output) and "map" (source map); when the caller passes  *)
(* the same object / the same factory for both, only "out" exists.         *)
(***************************************************************************)
EXTENDS Naturals, Sequences, FiniteSets, TLC, Json

CONSTANTS NWrites      \* number of write() calls the unparsed text needs

OutKinds == {"factory", "open"}
MapKinds == {"none", "factory", "open", "same"}   \* same: identical argument
NodeKinds == {"one", "list", "generator"}
Helpers == {"write", "read"}

\* every place where something can raise (0 = k-th write of the text)
WriteFaults == {<<f, 0>> : f \in {"none", "out_factory", "unparse",
                                    "map_factory", "writelines", "map_write"}}
               \cup {<<"write", k>> : k \in 1..NWrites}
ReadFaults == {<<f, 0>> : f \in {"none", "factory", "read", "parse"}}

VARIABLES helper, outKind, mapKind, nodes, fault,
          pc, log, opened, closed, raised, written
vars == <<helper, outKind, mapKind, nodes, fault, pc, log, opened, closed,
          raised, written>>

Ev(s, op, ok) == <<s, op, ok>>

Init ==
    /\ helper \in Helpers
    /\ IF helper = "write"
       THEN /\ outKind \in OutKinds /\ mapKind \in MapKinds
            /\ nodes \in NodeKinds /\ fault \in WriteFaults
            \* a fault can only be injected where the arrangement has the step
            /\ (fault[1] = "out_factory" => outKind = "factory")
            /\ (fault[1] = "map_factory" => mapKind = "factory")
            /\ (fault[1] \in {"writelines", "map_write"} => mapKind # "none")
            /\ (fault[1] = "map_write" => mapKind # "same")
       ELSE /\ outKind \in OutKinds /\ mapKind = "none" /\ nodes = "one"
            /\ fault \in ReadFaults
            /\ (fault[1] = "factory" => outKind = "factory")
    /\ pc = "start" /\ log = <<>> /\ opened = {} /\ closed = <<>>
    /\ raised = "" /\ written = 0

Fail(what) == /\ raised' = what /\ pc' = "cleanup"

\* ---- io.write ----------------------------------------------------------
GetOut ==
    /\ helper = "write" /\ pc = "start"
    /\ IF outKind = "factory"
       THEN IF fault[1] = "out_factory"
            THEN /\ log' = Append(log, Ev("out", "open", FALSE))
                 /\ Fail("out_factory") /\ UNCHANGED <<opened>>
            ELSE /\ log' = Append(log, Ev("out", "open", TRUE))
                 /\ opened' = opened \cup {"out"}
                 /\ pc' = "writing" /\ UNCHANGED raised
       ELSE /\ pc' = "writing" /\ UNCHANGED <<log, opened, raised>>
    /\ UNCHANGED <<helper, outKind, mapKind, nodes, fault, closed, written>>

\* sourcemap.write pulls fragments lazily from the unparser and writes them
WriteText ==
    /\ helper = "write" /\ pc = "writing"
    /\ IF fault[1] = "unparse" /\ written = NWrites \div 2
       THEN /\ Fail("unparse") /\ UNCHANGED <<log, written>>
       ELSE IF written = NWrites
       THEN /\ pc' = IF mapKind = "none" THEN "cleanup" ELSE "getmap"
            /\ UNCHANGED <<log, written, raised>>
       ELSE IF fault = <<"write", written + 1>>
       THEN /\ log' = Append(log, Ev("out", "write", FALSE))
            /\ Fail("write") /\ UNCHANGED written
       ELSE /\ log' = Append(log, Ev("out", "write", TRUE))
            /\ written' = written + 1 /\ UNCHANGED <<pc, raised>>
    /\ UNCHANGED <<helper, outKind, mapKind, nodes, fault, opened, closed>>

GetMap ==
    /\ helper = "write" /\ pc = "getmap"
    /\ IF mapKind = "factory"
       THEN IF fault[1] = "map_factory"
            THEN /\ log' = Append(log, Ev("map", "open", FALSE))
                 /\ Fail("map_factory") /\ UNCHANGED opened
            ELSE /\ log' = Append(log, Ev("map", "open", TRUE))
                 /\ opened' = opened \cup {"map"}
                 /\ pc' = "url" /\ UNCHANGED raised
       ELSE /\ pc' = "url" /\ UNCHANGED <<log, opened, raised>>
    /\ UNCHANGED <<helper, outKind, mapKind, nodes, fault, closed, written>>

\* write_sourcemap: the sourceMappingURL goes to the output stream ...
WriteURL ==
    /\ helper = "write" /\ pc = "url"
    /\ IF fault[1] = "writelines"
       THEN /\ log' = Append(log, Ev("out", "writelines", FALSE))
            /\ Fail("writelines")
       ELSE /\ log' = Append(log, Ev("out", "writelines", TRUE))
            /\ pc' = IF mapKind = "same" THEN "cleanup" ELSE "mapwrite"
            /\ UNCHANGED raised
    /\ UNCHANGED <<helper, outKind, mapKind, nodes, fault, opened, closed,
                   written>>

\* ... and the map itself to the map stream (unless it is inline)
WriteMap ==
    /\ helper = "write" /\ pc = "mapwrite"
    /\ IF fault[1] = "map_write"
       THEN /\ log' = Append(log, Ev("map", "write", FALSE))
            /\ Fail("map_write")
       ELSE /\ log' = Append(log, Ev("map", "write", TRUE))
            /\ pc' = "cleanup" /\ UNCHANGED raised
    /\ UNCHANGED <<helper, outKind, mapKind, nodes, fault, opened, closed,
                   written>>

\* ---- io.read -------------------------------------------------------------
ReadOpen ==
    /\ helper = "read" /\ pc = "start"
    /\ IF outKind = "factory"
       THEN IF fault[1] = "factory"
            THEN /\ log' = Append(log, Ev("out", "open", FALSE))
                 /\ Fail("factory") /\ UNCHANGED opened
            ELSE /\ log' = Append(log, Ev("out", "open", TRUE))
                 /\ opened' = opened \cup {"out"} /\ pc' = "reading"
                 /\ UNCHANGED raised
       ELSE /\ pc' = "reading" /\ UNCHANGED <<log, opened, raised>>
    /\ UNCHANGED <<helper, outKind, mapKind, nodes, fault, closed, written>>

ReadText ==
    /\ helper = "read" /\ pc = "reading"
    /\ IF fault[1] = "read"
       THEN /\ log' = Append(log, Ev("out", "read", FALSE)) /\ Fail("read")
       ELSE /\ log' = Append(log, Ev("out", "read", TRUE))
            /\ IF fault[1] = "parse" THEN Fail("parse")
               ELSE pc' = "cleanup" /\ UNCHANGED raised
    /\ UNCHANGED <<helper, outKind, mapKind, nodes, fault, opened, closed,
                   written>>

\* ---- finally: close what the helper opened, last opened first ----------
Cleanup ==
    /\ pc = "cleanup"
    /\ LET order == IF "map" \in opened /\ "out" \in opened
                    THEN <<"map", "out">>
                    ELSE IF "map" \in opened THEN <<"map">>
                    ELSE IF "out" \in opened THEN <<"out">> ELSE <<>> IN
        /\ closed' = order
        /\ log' = log \o [i \in 1..Len(order) |-> Ev(order[i], "close", TRUE)]
    /\ pc' = "done"
    /\ UNCHANGED <<helper, outKind, mapKind, nodes, fault, opened, raised,
                   written>>

Next == GetOut \/ WriteText \/ GetMap \/ WriteURL \/ WriteMap
        \/ ReadOpen \/ ReadText \/ Cleanup

Spec == Init /\ [][Next]_vars

(************************ Layer 1: the contract ***************************)
Count(s, op) == Cardinality({i \in 1..Len(log) : log[i][1] = s /\ log[i][2] = op
                                                 /\ log[i][3]})

\* streams obtained from a factory are closed exactly once on every path
ClosedOnce == pc = "done" =>
    \A s \in {"out", "map"} :
        Count(s, "close") = IF Count(s, "open") = 1 THEN 1 ELSE 0

\* streams passed in already open are never closed (they have no "open")
NeverCloseForeign == \A s \in {"out", "map"} :
    Count(s, "open") = 0 => Count(s, "close") = 0

\* nothing is done to a stream after it was closed
RECURSIVE NoUseAfterClose(_, _)
NoUseAfterClose(i, shut) ==
    IF i > Len(log) THEN TRUE
    ELSE IF log[i][1] \in shut THEN FALSE
    ELSE NoUseAfterClose(i + 1, IF log[i][2] = "close"
                                THEN shut \cup {log[i][1]} ELSE shut)
UseBeforeClose == NoUseAfterClose(1, {})

\* the failure is the caller's: it propagates, and only it
Propagates == pc = "done" => (raised = "" <=> fault[1] = "none")

\* hand the behaviour to the harness
Emit == pc = "done" =>
    PrintT(ToJson(<<helper, outKind, mapKind, nodes,
                    fault, log, raised>>))
=============================================================================
