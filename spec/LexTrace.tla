------------------------------ MODULE LexTrace ------------------------------
(***************************************************************************)
(* C06, code -> spec: a recorded token stream is a faithful, gap-free,     *)
(* correctly located segmentation of its text.                             *)
(*                                                                         *)
(* One behaviour per record.  The machine walks the text once: at every    *)
(* offset either the next recorded token starts there - then its claimed   *)
(* line / column must be the position reached by LineCol counting and the  *)
(* token's characters are consumed (line terminators inside it count) - or *)
(* the character belongs to a gap and must be white space or a line        *)
(* terminator.  Facts about raw text that TLC cannot see (substring        *)
(* equality, longest punctuator, keyword spelling) are computed by the     *)
(* harness and asserted here, so that the verdict and the failing clause   *)
(* come from this specification.                                           *)
(***************************************************************************)
EXTENDS LineCol, TLC, Json, IOUtils

Trace == ndJsonDeserialize(IOEnv.TRACE_FILE)

VARIABLES tid, pos, k, why
vars == <<tid, pos, k, why>>

Text(t) == Trace[t].cls
Toks(t) == Trace[t].toks       \* <<start, len, line, col, textOK, munchOK, kwOK>>

Init == /\ tid \in 1..Len(Trace)
        /\ pos = Start /\ k = 1 /\ why = "run"

AtToken == k <= Len(Toks(tid)) /\ Toks(tid)[k][1] = pos.off

TokenStep ==
    /\ why = "run" /\ AtToken
    /\ LET t == Toks(tid)[k] IN
        IF t[2] = 0 THEN why' = "empty token" /\ UNCHANGED <<pos, k>>
        ELSE IF pos.off + t[2] > Len(Text(tid))
        THEN why' = "token runs past the end of the text" /\ UNCHANGED <<pos, k>>
        ELSE IF t[3] # pos.line \/ t[4] # pos.col
        THEN why' = "line/column differ from ES5 line-terminator counting"
             /\ UNCHANGED <<pos, k>>
        ELSE IF ~t[5] THEN why' = "token text is not the input substring"
                           /\ UNCHANGED <<pos, k>>
        ELSE IF ~t[6] THEN why' = "punctuator not matched longest-first"
                           /\ UNCHANGED <<pos, k>>
        ELSE IF ~t[7] THEN why' = "keyword / identifier classification"
                           /\ UNCHANGED <<pos, k>>
        ELSE /\ pos' = EatN(pos, Text(tid), t[2])
             /\ k' = k + 1 /\ UNCHANGED why
    /\ UNCHANGED tid

GapStep ==
    /\ why = "run" /\ ~AtToken /\ pos.off < Len(Text(tid))
    /\ LET c == Text(tid)[pos.off + 1] IN
        IF k <= Len(Toks(tid)) /\ Toks(tid)[k][1] < pos.off
        THEN why' = "tokens overlap or are out of order" /\ UNCHANGED pos
        ELSE IF c = WS \/ IsLT(c)
        THEN pos' = Eat(pos, c) /\ UNCHANGED why
        ELSE why' = "gap holds something that is not white space"
             /\ UNCHANGED pos
    /\ UNCHANGED <<tid, k>>

Finish ==
    /\ why = "run" /\ ~AtToken /\ pos.off = Len(Text(tid))
    /\ why' = IF k = Len(Toks(tid)) + 1 THEN "ok"
              ELSE "tokens overlap or are out of order"
    /\ UNCHANGED <<tid, pos, k>>

Next == TokenStep \/ GapStep \/ Finish
Spec == Init /\ [][Next]_vars

Verdict == why # "run" => PrintT(ToJson(<<Trace[tid].id, why, k, pos.off>>))
=============================================================================
