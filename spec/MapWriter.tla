----------------------------- MODULE MapWriter -----------------------------
(***************************************************************************)
(* C09, Layer 2: sourcemap.write as it is implemented - Bookkeeper         *)
(* registers (prev / curr per attribute), Book.written_len / original_len, *)
(* the Names allocators, the per-line loop over chunk.splitlines(True),    *)
(* the newline branch, inferred columns and normalize_mapping_line -       *)
(* driven by every stream of fragment kinds up to MaxFrags, and checked    *)
(* against Layer 1 (SourceMapV3: what the produced map MEANS).             *)
(*                                                                         *)
(* One step = one fragment handed to write().  Every reachable state is a  *)
(* complete stream, so the invariants are evaluated on every prefix.       *)
(* Emit prints (kinds, normalize, firstSource, mappings, sources, names):  *)
(* the harness replays each into the real write() and compares the result *)
(* field by field (spec -> code conformance, "drift" when they differ).    *)
(*                                                                         *)
(* Text is a sequence over {"c", "n", "r"} (ordinary character, LF, CR).   *)
(* None is -1 for lineno / colno; names and sources are small strings,     *)
(* "" = None, "NI" = NotImplemented.                                       *)
(***************************************************************************)
EXTENDS SourceMapV3, TLC, Json, FiniteSets

CONSTANTS MaxFrags, Kinds

Chars(n) == [i \in 1..n |-> "c"]
None == -1

VARIABLES hist,         \* kinds so far
          normalize, firstSource,
          gen,          \* generator registers [line, col, src]
          w,            \* writer state
          frags         \* the fragments handed over (Layer 1 reads these)
vars == <<hist, normalize, firstSource, gen, w, frags>>

(***************************************************************************)
(* The fragment a kind stands for, and its effect on the generator's idea  *)
(* of "where in the source are we" (harness/c09.py concretises the same).  *)
(***************************************************************************)
Src(first) == IF first /\ firstSource THEN "a.js" ELSE ""

Frag(k, g, first) ==
    CASE k = "tok" ->
           [g |-> [g EXCEPT !.col = @ + 4],
            f |-> [text |-> Chars(3), line |-> g.line, col |-> g.col + 4,
                   name |-> "", nlen |-> 0, src |-> Src(first)]]
      [] k = "tok_back" ->
           LET c == IF g.col - 3 < 1 THEN 1 ELSE g.col - 3 IN
           [g |-> [g EXCEPT !.col = c],
            f |-> [text |-> Chars(2), line |-> g.line, col |-> c,
                   name |-> "", nlen |-> 0, src |-> Src(first)]]
      [] k = "tok_nextline" ->
           [g |-> [g EXCEPT !.line = @ + 1, !.col = 1],
            f |-> [text |-> Chars(4), line |-> g.line + 1, col |-> 1,
                   name |-> "", nlen |-> 0, src |-> Src(first)]]
      [] k = "tok_prevline" ->
           LET l == IF g.line - 1 < 1 THEN 1 ELSE g.line - 1 IN
           [g |-> [g EXCEPT !.line = l, !.col = 9],
            f |-> [text |-> Chars(1), line |-> l, col |-> 9,
                   name |-> "", nlen |-> 0, src |-> Src(first)]]
      [] k = "ren_short" ->
           [g |-> [g EXCEPT !.col = @ + 5],
            f |-> [text |-> Chars(1), line |-> g.line, col |-> g.col + 5,
                   name |-> "original", nlen |-> 8, src |-> Src(first)]]
      [] k = "ren_long" ->
           [g |-> [g EXCEPT !.col = @ + 5],
            f |-> [text |-> Chars(10), line |-> g.line, col |-> g.col + 5,
                   name |-> "o", nlen |-> 1, src |-> Src(first)]]
      [] k = "sp_inferred" ->
           [g |-> g, f |-> [text |-> Chars(1), line |-> 0, col |-> 0,
                            name |-> "", nlen |-> 0, src |-> ""]]
      [] k = "unmapped" ->
           [g |-> g, f |-> [text |-> Chars(2), line |-> None, col |-> None,
                            name |-> "", nlen |-> 0, src |-> ""]]
      [] k = "nl_inferred" ->
           [g |-> g, f |-> [text |-> <<"n">>, line |-> 0, col |-> 0,
                            name |-> "", nlen |-> 0, src |-> ""]]
      [] k = "nl_unmapped" ->
           [g |-> g, f |-> [text |-> <<"n">>, line |-> None, col |-> None,
                            name |-> "", nlen |-> 0, src |-> ""]]
      [] k = "nl_positioned" ->
           [g |-> [g EXCEPT !.col = @ + 2],
            f |-> [text |-> <<"n">>, line |-> g.line, col |-> g.col + 2,
                   name |-> "", nlen |-> 0, src |-> Src(first)]]
      [] k = "multi" ->
           [g |-> [g EXCEPT !.line = @ + 1, !.col = 1],
            f |-> [text |-> Chars(4) \o <<"n">> \o Chars(3), line |-> g.line,
                   col |-> g.col + 3, name |-> "", nlen |-> 0,
                   src |-> Src(first)]]
      [] k = "multi_cr" ->
           [g |-> [g EXCEPT !.line = @ + 1, !.col = 1],
            f |-> [text |-> Chars(4) \o <<"r">> \o Chars(3), line |-> g.line,
                   col |-> g.col + 3, name |-> "", nlen |-> 0,
                   src |-> Src(first)]]
      [] k = "empty" ->
           [g |-> g, f |-> [text |-> <<>>, line |-> g.line, col |-> g.col,
                            name |-> "", nlen |-> 0, src |-> Src(first)]]
      [] k = "src_change" ->
           LET s == IF g.src = "a.js" THEN "b.js" ELSE "a.js" IN
           [g |-> [line |-> 2, col |-> 2, src |-> s],
            f |-> [text |-> Chars(1), line |-> 2, col |-> 2, name |-> "",
                   nlen |-> 0, src |-> s]]
      [] k = "src_ni" ->
           [g |-> [g EXCEPT !.line = 7, !.col = 7],
            f |-> [text |-> Chars(1), line |-> 7, col |-> 7, name |-> "",
                   nlen |-> 0, src |-> "NI"]]
      [] k = "crlf" ->
           [g |-> g, f |-> [text |-> <<"r", "n">>, line |-> 0, col |-> 0,
                            name |-> "", nlen |-> 0, src |-> ""]]
      [] k = "cr" ->
           [g |-> g, f |-> [text |-> <<"r">>, line |-> 0, col |-> 0,
                            name |-> "", nlen |-> 0, src |-> ""]]

(***************************************************************************)
(* The writer.                                                             *)
(***************************************************************************)
\* Bookkeeper attribute = <<prev, curr>>
Set(a, v)    == <<a[2], v>>            \* keeper.x = v   (attribute exists)
Reset(a, v)  == <<v, v>>               \* keeper._x = v
Delta(a)     == a[2] - a[1]            \* keeper.x
Cur(a)       == a[2]                   \* keeper._x

\* Names.update: <<table', current', result>>
Index(tab, n) == CHOOSE i \in 1..Len(tab) : tab[i] = n
Update(tab, cur, n) ==
    LET t2  == IF \E i \in 1..Len(tab) : tab[i] = n THEN tab
               ELSE Append(tab, n)
        idx == Index(t2, n) - 1
    IN <<t2, idx, idx - cur>>

W0 == [sink |-> <<0, 0>>, sl |-> <<1, 1>>, sc |-> <<1, 1>>,
       wlen |-> 0, olen |-> 0,
       names |-> <<>>, ncur |-> 0, sources |-> <<>>, scur |-> 0,
       maps |-> << <<>> >>, text |-> <<>>]

IsLT(c) == c \in {"n", "r"}

\* chunk.splitlines(True): a line ends after LF, after CR LF, after a CR
\* that is not followed by LF
RECURSIVE SplitLines(_, _)
SplitLines(t, cur) ==
    IF t = <<>> THEN (IF cur = <<>> THEN <<>> ELSE <<cur>>)
    ELSE LET c == Head(t) IN
         IF c = "n" \/ (c = "r" /\ (Len(t) = 1 \/ t[2] # "n"))
         THEN <<Append(cur, c)>> \o SplitLines(Tail(t), <<>>)
         ELSE SplitLines(Tail(t), Append(cur, c))

\* len(line.rstrip()) for a line whose only trailing white space is its
\* line terminator
RStripLen(line) == Cardinality({i \in 1..Len(line) : ~IsLT(line[i])})

AppendSeg(maps, seg) ==
    [maps EXCEPT ![Len(maps)] = Append(@, seg)]

\* one iteration of `for line in lines` ; st = [w, lineno, colno]
Line(st, line, f) ==
    LET w0 == [st.w EXCEPT !.text = @ \o line]
        \* the segment
        w1 == IF st.lineno = None \/ st.colno = None
              THEN [w0 EXCEPT !.maps = AppendSeg(@, <<Delta(w0.sink)>>)]
              ELSE
              LET nu  == IF f.name = "" THEN <<w0.names, w0.ncur, 0>>
                         ELSE Update(w0.names, w0.ncur, f.name)
                  su  == IF f.src = "" THEN <<w0.sources, w0.scur, 0>>
                         ELSE Update(w0.sources, w0.scur, f.src)
                  sl2 == IF st.lineno # 0 THEN Set(w0.sl, st.lineno)
                         ELSE w0.sl
                  sld == IF st.lineno # 0 THEN Delta(sl2) ELSE 0
                  sc2 == IF st.colno # 0 THEN Set(w0.sc, st.colno)
                         ELSE Set(w0.sc, Cur(w0.sc) + w0.olen)
                  seg == IF f.name # ""
                         THEN <<Delta(w0.sink), su[3], sld, Delta(sc2), nu[3]>>
                         ELSE <<Delta(w0.sink), su[3], sld, Delta(sc2)>>
              IN [w0 EXCEPT !.names = nu[1], !.ncur = nu[2],
                            !.sources = su[1], !.scur = su[2],
                            !.sl = sl2, !.sc = sc2,
                            !.maps = AppendSeg(@, seg)]
    IN
    IF IsLT(line[Len(line)])
    THEN LET c2 == IF st.colno \in {0, None} THEN st.colno
                   ELSE st.colno + RStripLen(line)
             w2 == [w1 EXCEPT !.olen = 0, !.wlen = 0,
                              !.maps = Append(@, <<>>),
                              !.sink = Reset(@, 0)]
         IN IF st.lineno \notin {0, None} /\ c2 \notin {0, None}
            THEN [w |-> w2, lineno |-> st.lineno + 1, colno |-> 1]
            ELSE [w |-> w2, lineno |-> st.lineno, colno |-> c2]
    ELSE [w |-> [w1 EXCEPT !.wlen = Len(line),
                           !.olen = IF f.name # "" THEN f.nlen ELSE Len(line),
                           !.sink = Set(@, Cur(w1.sink) + Len(line))],
          lineno |-> st.lineno, colno |-> st.colno]

RECURSIVE Lines(_, _, _, _)
Lines(st, ls, i, f) ==
    IF i > Len(ls) THEN st ELSE Lines(Line(st, ls[i], f), ls, i + 1, f)

Write(ws, f) ==
    Lines([w |-> ws, lineno |-> f.line, colno |-> f.col],
          SplitLines(f.text, <<>>), 1, f).w

(***************************************************************************)
(* normalize_mapping_line, literally.  st = [rec, result, regen]           *)
(***************************************************************************)
NormSeg(st, seg) ==
    LET r0 == [st.rec EXCEPT ![1] = @ + seg[1]] IN
    IF Len(seg) = 1
    THEN IF st.result # <<>> /\ Len(st.result[Len(st.result)]) # 1
         THEN [rec |-> [r0 EXCEPT ![1] = 0],
               result |-> Append(st.result, <<r0[1]>>), regen |-> TRUE]
         ELSE [st EXCEPT !.rec = r0]
    ELSE LET r1 == [r0 EXCEPT ![4] = @ + seg[4]] IN
         IF Len(seg) = 5 \/ st.regen \/ seg[2] # 0 \/ seg[3] # 0
            \/ r1[1] # r1[4]
         THEN [rec |-> <<0, 0, 0, 0>>,
               result |-> Append(st.result,
                   IF Len(seg) = 5 THEN <<r1[1], seg[2], seg[3], r1[4], seg[5]>>
                   ELSE <<r1[1], seg[2], seg[3], r1[4]>>),
               regen |-> Len(seg) = 5]
         ELSE [st EXCEPT !.rec = r1]

RECURSIVE NormLine(_, _, _)
NormLine(st, line, i) ==
    IF i > Len(line) THEN st ELSE NormLine(NormSeg(st, line[i]), line, i + 1)

\* -> <<normalized lines>>; column carried over from line to line
RECURSIVE NormAll(_, _, _)
NormAll(m, i, column) ==
    IF i > Len(m) THEN <<>>
    ELSE IF m[i] = <<>> THEN <<<<>>>> \o NormAll(m, i + 1, column)
    ELSE LET st == NormLine([rec |-> <<0, 0, 0, column>>, result |-> <<>>,
                             regen |-> TRUE], m[i], 1)
         IN <<st.result>> \o NormAll(m, i + 1, st.rec[4])

Final(ws) == IF normalize THEN NormAll(ws.maps, 1, 0) ELSE ws.maps
SourcesOut(ws) ==
    IF ws.sources = <<>> THEN <<"about:invalid">>
    ELSE [i \in 1..Len(ws.sources) |->
            IF ws.sources[i] = "NI" THEN "about:invalid" ELSE ws.sources[i]]

(***************************************************************************)
(* Behaviour                                                               *)
(***************************************************************************)
Init == /\ hist = <<>> /\ normalize \in BOOLEAN /\ firstSource \in BOOLEAN
        /\ gen = [line |-> 3, col |-> 5, src |-> "a.js"]
        /\ w = W0 /\ frags = <<>>

\* a CR LF pair split over two fragments is not a well-formed stream
LastNonEmpty == LET ks == SelectSeq(hist, LAMBDA k : k # "empty")
                IN IF ks = <<>> THEN "" ELSE ks[Len(ks)]
Allowed(k) == ~(LastNonEmpty = "cr" /\
                k \in {"nl_inferred", "nl_unmapped", "nl_positioned"})

Step == /\ Len(hist) < MaxFrags
        /\ \E k \in Kinds :
             /\ Allowed(k)
             /\ LET fr == Frag(k, gen, hist = <<>>) IN
                /\ gen' = fr.g
                /\ w' = Write(w, fr.f)
                /\ frags' = Append(frags, fr.f)
             /\ hist' = Append(hist, k)
        /\ UNCHANGED <<normalize, firstSource>>

Spec == Init /\ [][Step]_vars

(***************************************************************************)
(* Layer 1 reading of the stream: where each explicitly positioned         *)
(* fragment starts in the written text, and what it says about itself.     *)
(***************************************************************************)
\* (line, col) reached after text t, 1-based line, 0-based column; a CR
\* directly followed by LF counts once
RECURSIVE Pos(_, _, _, _)
Pos(t, i, line, col) ==
    IF i > Len(t) THEN <<line, col>>
    ELSE IF t[i] = "n" THEN Pos(t, i + 1, line + 1, 0)
    ELSE IF t[i] = "r" THEN
         (IF i < Len(t) /\ t[i + 1] = "n" THEN Pos(t, i + 2, line + 1, 0)
          ELSE Pos(t, i + 1, line + 1, 0))
    ELSE Pos(t, i + 1, line, col + 1)

RECURSIVE TextBefore(_, _)
TextBefore(fs, j) == IF j = 0 THEN <<>> ELSE TextBefore(fs, j - 1) \o fs[j].text

\* the source a fragment belongs to: the last one named by a fragment with
\* text at or before it ("" = never named)
RECURSIVE CurSource(_, _)
CurSource(fs, j) ==
    IF j = 0 THEN ""
    ELSE IF fs[j].text # <<>> /\ fs[j].src # "" THEN
         (IF fs[j].src = "NI" THEN "about:invalid" ELSE fs[j].src)
    ELSE CurSource(fs, j - 1)

Explicit(f) == f.text # <<>> /\ f.line > 0 /\ f.col > 0

ProbeOK(dec, j) ==
    LET f  == frags[j]
        p  == Pos(TextBefore(frags, j - 1), 1, 1, 0)
        r  == Lookup(dec, p[1], p[2])
        cs == CurSource(frags, j)
        so == SourcesOut(w)
    IN /\ r.found
       /\ (~normalize => r.exact)
       /\ (cs # "" => r.src + 1 \in 1..Len(so) /\ so[r.src + 1] = cs)
       /\ r.sl = f.line - 1
       /\ r.sc = f.col - 1
       /\ (f.name # "" => r.nm + 1 \in 1..Len(w.names)
                          /\ w.names[r.nm + 1] = f.name)

\* --- invariants ---------------------------------------------------------
MapMeansStream ==
    LET dec == Decode(Final(w)) IN
    \A j \in 1..Len(frags) : Explicit(frags[j]) => ProbeOK(dec, j)

IndicesInRange ==
    LET m == Final(w) IN
    WellFormed(m) /\ InRange(Decode(m), Len(SourcesOut(w)), Len(w.names))

LineCount ==
    Len(Final(w)) = Pos(w.text, 1, 1, 0)[1]

Emit == PrintT(ToJson([kinds |-> hist, normalize |-> normalize,
                       firstSource |-> firstSource, mappings |-> Final(w),
                       sources |-> SourcesOut(w), names |-> w.names]))
=============================================================================
