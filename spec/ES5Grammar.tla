---------------------------- MODULE ES5Grammar ----------------------------
(***************************************************************************)
(* Layer 1: the syntactic grammar of ECMA-262 5.1 (sections 11 - 14) with  *)
(* automatic semicolon insertion (7.9) as a LEFTMOST-DERIVATION MACHINE.   *)
(*                                                                         *)
(* A behaviour of this machine is one derivation.  Its product is `out`,   *)
(* the sentence in document order with the dictated tree bracketed around  *)
(* the tokens:                                                             *)
(*     <<"(", Kind, attr, meta>>   open a node of asttypes kind Kind       *)
(*     <<")">>                     close it                                *)
(*     <<"-">>                     an optional child that is absent        *)
(*     <<"T", class, role>>        a token of the source text              *)
(*     <<"V">>                     a semicolon supplied by 7.9 (no text)   *)
(*     <<"R">>                     [no LineTerminator here] before the     *)
(*                                 next token (restricted production)      *)
(* and `nls`, the set of token indices that are preceded by a line         *)
(* terminator.  Everything the properties quantify over - programs, their  *)
(* trees, token roles, the tokens a node owns, which `/` is a division and *)
(* which a regex, where ASI applies - is read off this product.            *)
(*                                                                         *)
(* Written from the standard, not from the implementation: non-terminals   *)
(* are parameterised (precedence level, NoIn, no-brace-or-function-first,  *)
(* no-short-if) instead of the three copied families of parsers/es5.py.    *)
(* Named deviations the library documents: function declarations are       *)
(* statements (AllowFuncDeclInStatement).                                  *)
(***************************************************************************)
EXTENDS Naturals, Sequences, FiniteSets, TLC, Json

CONSTANTS
    Sigma,      \* the token classes of this theme (a production is enabled
                \* only if all its terminals are in Sigma)
    MaxTok,     \* sentences of at most this many tokens
    MaxNL,      \* at most this many tokens preceded by a line terminator
    Start,      \* start form of the theme: "Program", "Stmt", "Expr", or an
                \* expression embedded in a for-initialiser ("ForExpr",
                \* "ForVar") so that the NoIn family is reached within MaxTok
    Relax       \* set of rules deliberately lifted to generate NEAR-sentences
                \* (the negative side of C03): the strings derivable with a
                \* rule lifted but not without it must all be rejected.
                \* {} is the ES5 grammar.  "nobf": 12.4 look-ahead; "noin":
                \* NoIn in for-initialisers; "lhs": left operand of = / ++;
                \* "nolt": [no LineTerminator here]; "emptyasi": ASI may
                \* produce an empty statement; "forasi": ASI in a for header;
                \* "anyasi": a semicolon is inserted before any token

(****************************** vocabulary ******************************)
BinOpsAt(l) ==
    CASE l = 3  -> {"||"}
      [] l = 4  -> {"&&"}
      [] l = 5  -> {"|"}
      [] l = 6  -> {"^"}
      [] l = 7  -> {"&"}
      [] l = 8  -> {"==", "!=", "===", "!=="}
      [] l = 9  -> {"<", ">", "<=", ">=", "instanceof", "in"}
      [] l = 10 -> {"<<", ">>", ">>>"}
      [] l = 11 -> {"+", "-"}
      [] l = 12 -> {"*", "/", "%"}
      [] OTHER  -> {}
BinLevels == 3..12
BinOps == UNION {BinOpsAt(l) : l \in BinLevels}
AssignOps == {"=", "*=", "/=", "%=", "+=", "-=", "<<=", ">>=", ">>>=",
              "&=", "^=", "|="}
UnaryOps == {"delete", "void", "typeof", "++", "--", "+", "-", "~", "!"}
PostfixOps == {"++", "--"}

\* 7.9.1: tokens that the grammar allows directly after a construct whose
\* last token has end kind e - an unterminated statement followed by one of
\* these is NOT an offending token, so no semicolon is inserted.
\*   "o" operand end (identifier, literal, this, ")", "]", "}" of a
\*       function expression or object literal, property name)
\*   "p" postfix ++ / --        "v" declared name of a var without "="
\*   "x" anything else (`return`, `break`, `)` of do-while, ...)
Cont(e) ==
    CASE e = "o" -> BinOps \cup AssignOps
                    \cup {";", "?", ",", "(", "[", ".", "REGEX"}
      [] e = "p" -> BinOps \cup AssignOps \cup {";", "?", ",", "REGEX"}
      [] e = "v" -> {";", "=", ","}
      [] OTHER   -> {";"}

(************************ grammar symbols (stack) ************************)
T(c)        == <<"t", c, "x", "">>      \* terminal, cannot end an expression
TE(c, e)    == <<"t", c, e, "">>        \* terminal with end kind e
TR(c, e, r) == <<"t", c, e, r>>         \* ... and a role recorded in `out`
O(k)        == <<"o", k, "", "">>
OA(k, a)    == <<"o", k, a, "">>
OM(k, a, m) == <<"o", k, a, m>>
C           == <<"c">>
Z           == <<"z">>                  \* absent optional child
VS          == <<"vs">>                 \* semicolon by automatic insertion
NoLT        == <<"r">>                  \* [no LineTerminator here]
N(name, l, p, q) == <<"n", name, l, p, q>>

E(l, in, bf) == N("E", l, IF l >= 10 THEN "in" ELSE in, bf)
Unary(bf)    == N("Unary", 0, "", bf)
Postfix(bf)  == N("Postfix", 0, "", bf)
LHS(bf)      == N("LHS", 0, "", bf)
CallE(bf)    == N("Call", 0, "", bf)
NewE(bf)     == N("New", 0, "", bf)
Member(bf)   == N("Member", 0, "", bf)
Primary(bf)  == N("Primary", 0, "", bf)
Args         == N("Args", 0, "", "")
ArgList      == N("ArgList", 0, "", "")
PropName     == N("PropName", 0, "", "")
ArrayItems   == N("ArrayItems", 0, "", "")
Elems        == N("Elems", 0, "", "")
Elem         == N("Elem", 0, "", "")
Elis         == N("Elis", 0, "", "")
Commas       == N("Commas", 0, "", "")
Props        == N("Props", 0, "", "")
Prop         == N("Prop", 0, "", "")
PName        == N("PName", 0, "", "")
Ident        == N("Ident", 0, "", "")
IdentV       == N("IdentV", 0, "", "")
FuncExpr     == N("FuncExpr", 0, "", "")
FuncDecl     == N("FuncDecl", 0, "", "")
Params       == N("Params", 0, "", "")
ParamList    == N("ParamList", 0, "", "")
Body         == N("StmtList", 0, "", "")
StmtList     == N("StmtList", 0, "", "")
S(nsi)       == N("S", 0, nsi, "")
Block        == N("Block", 0, "", "")
Term         == N("Term", 0, "", "")
VarDecls(in) == N("VarDecls", 0, in, "")
VarDecl(in)  == N("VarDecl", 0, in, "")
ForInit      == N("ForInit", 0, "", "")
ForCond      == N("ForCond", 0, "", "")
ForCount     == N("ForCount", 0, "", "")
Clauses(d)   == N("Clauses", 0, d, "")
Catch        == N("Catch", 0, "", "")
Finally      == N("Finally", 0, "", "")
Program      == N("Program", 0, "", "")

Literal(kind, c) == <<O(kind), TE(c, "o"), C>>

(****************************** productions ******************************)
ExprProds(l, in, bf) ==
    \* 11.14 comma
    (IF l <= 0 THEN {<<O("Comma"), E(0, in, bf), T(","), E(1, in, "any"), C>>}
     ELSE {})
    \cup
    \* 11.13 assignment: LeftHandSideExpression op AssignmentExpression
    (IF l <= 1 THEN {<<OA("Assign", op),
                       IF "lhs" \in Relax THEN E(3, in, bf) ELSE LHS(bf),
                       T(op), E(1, in, "any"), C>>
                        : op \in AssignOps}
     ELSE {})
    \cup
    \* 11.12 conditional: LogicalOR ? Assignment : Assignment(NoIn)
    (IF l <= 2 THEN {<<O("Conditional"), E(3, in, bf), T("?"),
                       E(1, "in", "any"), T(":"), E(1, in, "any"), C>>}
     ELSE {})
    \cup
    \* 11.5 - 11.11 binary operators, left associative
    UNION {{<<OA("BinOp", op), E(k, in, bf), T(op), E(k + 1, in, "any"), C>>
                : op \in (IF in = "noin" THEN BinOpsAt(k) \ {"in"}
                          ELSE BinOpsAt(k))}
            : k \in {k \in BinLevels : k >= l}}
    \cup {<<Unary(bf)>>}

Prods(sym) ==
  LET name == sym[2]  l == sym[3]  p == sym[4]  q == sym[5] IN
  CASE name = "E" -> ExprProds(l, p, q)
  \* 11.4 unary
  [] name = "Unary" ->
        {<<OA("UnaryExpr", op), T(op), Unary("any"), C>> : op \in UnaryOps}
        \cup {<<Postfix(q)>>}
  \* 11.3 postfix: LeftHandSideExpression [no LineTerminator here] ++
  [] name = "Postfix" ->
        {<<OA("PostfixExpr", op),
           IF "lhs" \in Relax THEN Unary(q) ELSE LHS(q),
           NoLT, TR(op, "p", "postfix"), C>>
            : op \in PostfixOps}
        \cup {<<LHS(q)>>}
  \* 11.2 left-hand-side expressions
  [] name = "LHS" -> {<<NewE(q)>>, <<CallE(q)>>}
  [] name = "Call" ->
        {<<O("FunctionCall"), Member(q), Args, C>>,
         <<O("FunctionCall"), CallE(q), Args, C>>,
         <<O("BracketAccessor"), CallE(q), T("["), E(0, "in", "any"),
           TE("]", "o"), C>>,
         <<O("DotAccessor"), CallE(q), T("."), PropName, C>>}
  [] name = "New" ->
        {<<Member(q)>>,
         <<O("NewExpr"), T("new"), NewE("any"), Z, C>>}
  [] name = "Member" ->
        {<<Primary(q)>>,
         <<O("BracketAccessor"), Member(q), T("["), E(0, "in", "any"),
           TE("]", "o"), C>>,
         <<O("DotAccessor"), Member(q), T("."), PropName, C>>,
         <<O("NewExpr"), T("new"), Member("any"), Args, C>>}
        \cup (IF q = "any" THEN {<<FuncExpr>>} ELSE {})
  [] name = "Args" ->
        {<<O("Arguments"), T("("), TE(")", "o"), C>>,
         <<O("Arguments"), T("("), ArgList, TE(")", "o"), C>>}
  [] name = "ArgList" ->
        {<<E(1, "in", "any")>>, <<E(1, "in", "any"), T(","), ArgList>>}
  [] name = "PropName" -> {<<O("PropIdentifier"), TE("IDN", "o"), C>>}
  \* 11.1 primary expressions
  [] name = "Primary" ->
        {<<O("This"), TE("this", "o"), C>>,
         <<O("Identifier"), TE("ID", "o"), C>>,
         Literal("Number", "NUM"), Literal("String", "STR"),
         Literal("Regex", "REGEX"), Literal("Null", "null"),
         Literal("Boolean", "true"), Literal("Boolean", "false"),
         <<O("Array"), T("["), ArrayItems, TE("]", "o"), C>>,
         <<O("GroupingOp"), T("("), E(0, "in", "any"), TE(")", "o"), C>>}
        \cup (IF q = "any"
              THEN {<<O("Object"), T("{"), TE("}", "o"), C>>,
                    <<O("Object"), T("{"), Props, TE("}", "o"), C>>,
                    <<O("Object"), T("{"), Props, T(","), TE("}", "o"), C>>}
              ELSE {})
  \* 11.1.4 array initialiser with elisions
  [] name = "ArrayItems" -> {<<>>, <<Elis>>, <<Elems>>}
  [] name = "Elems" ->
        {<<Elem>>, <<Elem, T(",")>>, <<Elem, T(","), Elis>>,
         <<Elem, T(","), Elems>>}
  [] name = "Elem" -> {<<E(1, "in", "any")>>, <<Elis, E(1, "in", "any")>>}
  [] name = "Elis" -> {<<O("Elision"), Commas, C>>}
  [] name = "Commas" -> {<<TR(",", "x", "elision")>>,
                         <<TR(",", "x", "elision"), Commas>>}
  \* 11.1.5 object initialiser
  [] name = "Props" -> {<<Prop>>, <<Prop, T(","), Props>>}
  [] name = "Prop" ->
        {<<OA("Assign", ":"), PName, T(":"), E(1, "in", "any"), C>>,
         <<O("GetPropAssign"), T("GET"), PName, T("("), T(")"), T("{"),
           Body, T("}"), C>>,
         <<O("SetPropAssign"), T("SET"), PName, T("("), Ident, T(")"),
           T("{"), Body, T("}"), C>>}
  [] name = "PName" ->
        {<<O("PropIdentifier"), T("IDN"), C>>,
         <<O("String"), T("STR"), C>>, <<O("Number"), T("NUM"), C>>}
  [] name = "Ident" -> {<<O("Identifier"), TE("ID", "o"), C>>}
  [] name = "IdentV" -> {<<O("Identifier"), TE("ID", "v"), C>>}
  \* 13 function definition
  [] name = "FuncExpr" ->
        {<<O("FuncExpr"), T("function"), Z, T("("), Params, T(")"), T("{"),
           Body, TE("}", "o"), C>>,
         <<O("FuncExpr"), T("function"), Ident, T("("), Params, T(")"),
           T("{"), Body, TE("}", "o"), C>>}
  [] name = "FuncDecl" ->
        {<<O("FuncDecl"), T("function"), Ident, T("("), Params, T(")"),
           T("{"), Body, T("}"), C>>}
  [] name = "Params" -> {<<>>, <<ParamList>>}
  [] name = "ParamList" -> {<<Ident>>, <<Ident, T(","), ParamList>>}
  \* 14 program / statement lists
  [] name = "Program" -> {<<O("ES5Program"), StmtList, C>>}
  [] name = "StmtList" -> {<<>>, <<S("any"), StmtList>>}
  [] name = "Block" -> {<<O("Block"), T("{"), StmtList, T("}"), C>>}
  \* statement terminator: a real ";" or one supplied by 7.9
  [] name = "Term" -> {<<TR(";", "x", "term")>>, <<VS>>}
  \* 12.2 variable statement
  [] name = "VarDecls" -> {<<VarDecl(p)>>, <<VarDecl(p), T(","), VarDecls(p)>>}
  [] name = "VarDecl" ->
        {<<O("VarDecl"), IdentV, Z, C>>,
         <<O("VarDecl"), Ident, T("="), E(1, p, "any"), C>>}
  \* 12.6.3 for header parts; omitted parts are placeholders in the tree
  [] name = "ForInit" ->
        {<<OM("EmptyStatement", "", "placeholder"), C>>,
         <<OM("ExprStatement", "", "for"),
           E(0, IF "noin" \in Relax THEN "in" ELSE "noin", "any"), C>>,
         <<OM("VarStatement", "", "for"), T("var"),
           VarDecls(IF "noin" \in Relax THEN "in" ELSE "noin"), C>>}
  [] name = "ForCond" ->
        {<<OM("EmptyStatement", "", "placeholder"), C>>,
         <<OM("ExprStatement", "", "for"), E(0, "in", "any"), C>>}
  [] name = "ForCount" -> {<<Z>>, <<E(0, "in", "any")>>}
  \* 12.11 switch: at most one default clause
  [] name = "Clauses" ->
        {<<>>,
         <<O("Case"), T("case"), E(0, "in", "any"), T(":"), StmtList, C,
           Clauses(p)>>}
        \cup (IF p = "d0"
              THEN {<<O("Default"), T("default"), T(":"), StmtList, C,
                      Clauses("d1")>>}
              ELSE {})
  [] name = "Catch" ->
        {<<O("Catch"), T("catch"), T("("), Ident, T(")"), Block, C>>}
  [] name = "Finally" -> {<<O("Finally"), T("finally"), Block, C>>}
  \* 12 statements; p = "nsi" is the no-short-if variant: an `if` without
  \* `else` may not end it, so that `else` binds to the nearest `if`
  [] name = "S" ->
        {<<Block>>,
         <<O("VarStatement"), T("var"), VarDecls("in"), Term, C>>,
         <<O("EmptyStatement"),
           IF "emptyasi" \in Relax THEN Term ELSE TR(";", "x", "empty"), C>>,
         \* 12.4: an expression statement cannot start with { or function
         <<O("ExprStatement"),
           E(0, "in", IF "nobf" \in Relax THEN "any" ELSE "nobf"), Term, C>>,
         <<O("If"), T("if"), T("("), E(0, "in", "any"), T(")"), S("nsi"),
           T("else"), S(p), C>>,
         <<O("DoWhile"), T("do"), S("any"), T("while"), T("("),
           E(0, "in", "any"), T(")"), Term, C>>,
         <<O("While"), T("while"), T("("), E(0, "in", "any"), T(")"), S(p), C>>,
         <<O("For"), T("for"), T("("), ForInit,
           IF "forasi" \in Relax THEN Term ELSE TR(";", "x", "for"), ForCond,
           IF "forasi" \in Relax THEN Term ELSE TR(";", "x", "for"),
           ForCount, T(")"), S(p), C>>,
         <<O("ForIn"), T("for"), T("("), LHS("any"), T("in"),
           E(0, "in", "any"), T(")"), S(p), C>>,
         <<O("ForIn"), T("for"), T("("), O("VarDeclNoIn"), T("var"), Ident,
           Z, C, T("in"), E(0, "in", "any"), T(")"), S(p), C>>,
         <<O("ForIn"), T("for"), T("("), O("VarDeclNoIn"), T("var"), Ident,
           T("="), E(1, "noin", "any"), C, T("in"), E(0, "in", "any"),
           T(")"), S(p), C>>,
         <<O("Continue"), T("continue"), Z, Term, C>>,
         <<O("Continue"), T("continue"), NoLT, Ident, Term, C>>,
         <<O("Break"), T("break"), Z, Term, C>>,
         <<O("Break"), T("break"), NoLT, Ident, Term, C>>,
         <<O("Return"), T("return"), Z, Term, C>>,
         <<O("Return"), T("return"), NoLT, E(0, "in", "any"), Term, C>>,
         <<O("With"), T("with"), T("("), E(0, "in", "any"), T(")"), S(p), C>>,
         <<O("Switch"), T("switch"), T("("), E(0, "in", "any"), T(")"),
           O("CaseBlock"), T("{"), Clauses("d0"), T("}"), C, C>>,
         <<O("Label"), Ident, T(":"), S(p), C>>,
         <<O("Throw"), T("throw"), NoLT, E(0, "in", "any"), Term, C>>,
         <<O("Try"), T("try"), Block, Catch, Z, C>>,
         <<O("Try"), T("try"), Block, Z, Finally, C>>,
         <<O("Try"), T("try"), Block, Catch, Finally, C>>,
         <<O("Debugger"), T("debugger"), Term, C>>,
         \* AllowFuncDeclInStatement (library deviation, also ES5 practice)
         <<FuncDecl>>}
        \cup (IF p = "any"
              THEN {<<O("If"), T("if"), T("("), E(0, "in", "any"), T(")"),
                      S("any"), Z, C>>}
              ELSE {})
  [] OTHER -> {}

\* a production is enabled in a theme iff all its terminals are in Sigma
Enabled(rhs) == \A i \in 1..Len(rhs) : rhs[i][1] = "t" => rhs[i][2] \in Sigma

(*************************** length lower bounds ***************************)
MinLenN(name) ==
    CASE name \in {"StmtList", "Params", "ArrayItems", "Term", "ForCount",
                   "Clauses", "ForInit", "ForCond"} -> 0
      [] name \in {"Args", "Block"} -> 2
      [] name \in {"Catch"} -> 6
      [] name \in {"Finally"} -> 3
      [] name \in {"FuncExpr"} -> 5
      [] name \in {"FuncDecl"} -> 6
      [] name \in {"Prop"} -> 3
      [] name \in {"Props"} -> 3
      [] OTHER -> 1

MinLenSym(s) == IF s[1] = "t" THEN 1
                ELSE IF s[1] = "n" THEN MinLenN(s[2]) ELSE 0

RECURSIVE MinLenSeq(_)
MinLenSeq(ss) == IF ss = <<>> THEN 0
                 ELSE MinLenSym(Head(ss)) + MinLenSeq(Tail(ss))

(******************************** machine ********************************)
VARIABLES stack,    \* sentential form still to be derived (leftmost first)
          out,      \* product so far (see above)
          ntok,     \* number of "T" entries in out
          need,     \* lower bound on tokens still to come (pruning only)
          nls,      \* token indices preceded by a line terminator
          pend,     \* end kind at the last virtual semicolon not yet
                    \* justified by the following token ("" = none)
          lastEnd,  \* end kind of the last token
          noLT      \* the next token must not be preceded by a LT
vars == <<stack, out, ntok, need, nls, pend, lastEnd, noLT>>

\* move brackets that are at the front of the sentential form into out
RECURSIVE Flush(_, _)
Flush(st, o) ==
    IF st = <<>> THEN <<st, o>>
    ELSE LET h == Head(st) IN
         IF h[1] = "o" THEN Flush(Tail(st), Append(o, <<"(", h[2], h[3], h[4]>>))
         ELSE IF h[1] = "c" THEN Flush(Tail(st), Append(o, <<")">>))
         ELSE IF h[1] = "z" THEN Flush(Tail(st), Append(o, <<"-">>))
         ELSE <<st, o>>

ForAround(init) ==
    <<O("ES5Program"), O("For"), T("for"), T("(")>> \o init \o
    <<TR(";", "x", "for"), OM("EmptyStatement", "", "placeholder"), C,
      TR(";", "x", "for"), Z, T(")"),
      O("EmptyStatement"), TR(";", "x", "empty"), C, C, C>>

StartForm ==
    CASE Start = "Program" -> <<Program>>
      [] Start = "Expr"    -> <<E(0, "in", "any")>>
      [] Start = "ForExpr" ->
            ForAround(<<OM("ExprStatement", "", "for"),
                        E(0, "noin", "any"), C>>)
      [] Start = "ForVar"  ->
            ForAround(<<OM("VarStatement", "", "for"), T("var"),
                        O("VarDecl"), Ident, T("="), E(1, "noin", "any"),
                        C, C>>)
      [] Start = "ParenExpr" ->
            <<O("ES5Program"), O("ExprStatement"), O("GroupingOp"), T("("),
              E(0, "in", "any"), TE(")", "o"), C, TR(";", "x", "term"), C, C>>
      [] OTHER -> <<S("any")>>

Init == LET f == Flush(StartForm, <<>>) IN
        /\ stack = f[1] /\ out = f[2]
        /\ ntok = 0 /\ need = MinLenSeq(f[1])
        /\ nls = {} /\ pend = "" /\ lastEnd = "x" /\ noLT = FALSE

Expand ==
    /\ stack # <<>> /\ Head(stack)[1] = "n"
    /\ \E rhs \in Prods(Head(stack)) :
        /\ Enabled(rhs)
        /\ LET n2 == need - MinLenSym(Head(stack)) + MinLenSeq(rhs)
               f  == Flush(rhs \o Tail(stack), out) IN
            /\ ntok + n2 <= MaxTok
            /\ stack' = f[1] /\ out' = f[2] /\ need' = n2
    /\ UNCHANGED <<ntok, nls, pend, lastEnd, noLT>>

\* 7.9.1 rules 1 and 2 are applied at the token that follows the virtual
\* semicolon (EmitToken) or at the end of the input (Done)
VirtualSemicolon ==
    /\ stack # <<>> /\ Head(stack)[1] = "vs"
    /\ pend = ""
    /\ LET f == Flush(Tail(stack), Append(out, <<"V">>)) IN
        /\ stack' = f[1] /\ out' = f[2]
    /\ pend' = IF lastEnd = "" THEN "x" ELSE lastEnd
    /\ UNCHANGED <<ntok, need, nls, lastEnd, noLT>>

\* [no LineTerminator here]: recorded in the product as <<"R">> so that the
\* printing checks know the restricted positions
Restricted ==
    /\ stack # <<>> /\ Head(stack)[1] = "r"
    /\ LET f == Flush(Tail(stack), Append(out, <<"R">>)) IN
        /\ stack' = f[1] /\ out' = f[2]
    /\ noLT' = ("nolt" \notin Relax)
    /\ UNCHANGED <<ntok, need, nls, pend, lastEnd>>

EmitToken ==
    /\ stack # <<>> /\ Head(stack)[1] = "t"
    /\ LET h == Head(stack) IN
       \E nl \in (IF MaxNL > Cardinality(nls) /\ ntok > 0 /\ ~noLT
                  THEN BOOLEAN ELSE {FALSE}) :
        \* the semicolon before this token was inserted legitimately:
        \* the token is "}" or follows a line terminator, and it is an
        \* offending token (the grammar could not have continued with it)
        /\ (pend # "" /\ "anyasi" \notin Relax)
                => /\ (nl \/ h[2] = "}")
                   /\ h[2] \notin Cont(pend)
        /\ LET f == Flush(Tail(stack), Append(out, <<"T", h[2], h[4]>>)) IN
            /\ stack' = f[1] /\ out' = f[2]
        /\ ntok' = ntok + 1 /\ need' = need - 1
        /\ nls' = IF nl THEN nls \cup {ntok + 1} ELSE nls
        /\ pend' = "" /\ lastEnd' = h[3] /\ noLT' = FALSE

Next == Expand \/ VirtualSemicolon \/ Restricted \/ EmitToken

Spec == Init /\ [][Next]_vars

\* a complete derivation: end of input justifies a pending semicolon
Complete == stack = <<>>

(******************************* properties *******************************)
TypeOK == /\ ntok <= MaxTok /\ Cardinality(nls) <= MaxNL
          /\ pend \in {"", "o", "p", "v", "x"}

\* the pruning bound is a true lower bound: never negative
NeedOK == need >= 0 /\ (stack = <<>> => need = 0)

\* brackets of the product are balanced when the derivation is complete
RECURSIVE Depth(_, _)
Depth(o, d) == IF o = <<>> THEN d
               ELSE Depth(Tail(o), IF Head(o)[1] = "(" THEN d + 1
                                   ELSE IF Head(o)[1] = ")" THEN d - 1 ELSE d)
Balanced == Complete => Depth(out, 0) = 0

\* hand the product to the harness (one JSON line per complete derivation)
RECURSIVE SetToSeq(_)
SetToSeq(s) == IF s = {} THEN <<>>
               ELSE LET m == CHOOSE x \in s : \A y \in s : x <= y
                    IN <<m>> \o SetToSeq(s \ {m})
Emit == Complete => PrintT(ToJson(<<out, SetToSeq(nls)>>))
=============================================================================
