------------------------------ MODULE PureTrace ------------------------------
(***************************************************************************)
(* Code -> spec for C14 / C15 / C17: a recorded history of calls on real   *)
(* objects.  Every event carries digests computed by the harness:          *)
(*   <<op, call, result, args, shared>>                                    *)
(* result: digest index of what a finished call returned (0 otherwise),    *)
(* args / shared: digest index of the arguments (trees) and of the shared  *)
(* objects after the event.  Ref maps each call to the digest a fresh      *)
(* process obtains.  The property: every finished call returns Ref[call],  *)
(* and args / shared never change.                                         *)
(***************************************************************************)
EXTENDS Naturals, Sequences, TLC, Json, IOUtils

Trace == ndJsonDeserialize(IOEnv.TRACE_FILE)

VARIABLES tid, k, why
vars == <<tid, k, why>>

Ev(t) == Trace[t].events
Init == tid \in 1..Len(Trace) /\ k = 1 /\ why = "run"

Judge(t, e) ==
    IF e[1] = "finish" /\ e[3] # Trace[t].ref[e[2]]
    THEN "result differs from the result of a fresh call"
    ELSE IF e[4] # Trace[t].args0 THEN "argument was modified"
    ELSE IF e[5] # Trace[t].shared0 THEN "shared state was modified"
    ELSE "ok"

Step == /\ why = "run"
        /\ IF k > Len(Ev(tid)) THEN why' = "ok" /\ UNCHANGED k
           ELSE LET j == Judge(tid, Ev(tid)[k]) IN
                IF j = "ok" THEN k' = k + 1 /\ UNCHANGED why
                ELSE why' = j /\ UNCHANGED k
        /\ UNCHANGED tid
Spec == Init /\ [][Step]_vars

Verdict == why # "run" => PrintT(ToJson(<<Trace[tid].id, why, k>>))
=============================================================================
