------------------------------ MODULE FuseTrace ------------------------------
(***************************************************************************)
(* Batch evaluation of the no-fusion oracle of ES5Lexical.tla: each record *)
(* is a pair of token spellings (as character classes) with their kinds    *)
(* and the separator written between them; the verdict says whether the    *)
(* two tokens keep their identity.                                         *)
(***************************************************************************)
EXTENDS ES5Lexical, Json, IOUtils

Trace == ndJsonDeserialize(IOEnv.TRACE_FILE)

VARIABLES tid
Init == tid \in 1..Len(Trace)
Next == UNCHANGED tid
Spec == Init /\ [][Next]_tid

Verdict == PrintT(ToJson(<<Trace[tid].id,
                          Separate(Trace[tid].a, Trace[tid].ka,
                                   Trace[tid].sep,
                                   Trace[tid].b, Trace[tid].kb)>>))
=============================================================================
