----------------------------- MODULE StreamTrace -----------------------------
(***************************************************************************)
(* C18, code -> spec: event logs recorded by instrumented stream doubles   *)
(* while the real io.write / io.read ran (with a fault injected at a       *)
(* chosen call) are judged against the stream contract (Layer 1):          *)
(*  - a stream obtained from a factory is closed exactly once, whatever    *)
(*    happened; a stream passed in already open is never closed            *)
(*  - nothing is done to a stream after it was closed                      *)
(*  - the injected failure - and only it - reaches the caller; a syntax    *)
(*    error is re-labelled with the stream name but keeps its type         *)
(*  - on success the content facts computed by the harness hold: output =  *)
(*    printer text (+ sourceMappingURL), the URL designates the map the    *)
(*    lower-level API yields, read() recorded the stream name as source    *)
(* One behaviour per record; the verdict names the failing clause.         *)
(***************************************************************************)
EXTENDS Naturals, Sequences, FiniteSets, TLC, Json, IOUtils

Trace == ndJsonDeserialize(IOEnv.TRACE_FILE)

VARIABLES tid
Init == tid \in 1..Len(Trace)
Next == UNCHANGED tid
Spec == Init /\ [][Next]_tid

Log(t) == Trace[t].log          \* <<stream, op, ok>>
Count(t, s, op) == Cardinality({i \in 1..Len(Log(t)) :
    Log(t)[i][1] = s /\ Log(t)[i][2] = op /\ Log(t)[i][3]})

RECURSIVE NoUseAfterClose(_, _, _)
NoUseAfterClose(t, i, shut) ==
    IF i > Len(Log(t)) THEN TRUE
    ELSE IF Log(t)[i][1] \in shut THEN FALSE
    ELSE NoUseAfterClose(t, i + 1,
            IF Log(t)[i][2] = "close" /\ Log(t)[i][3]
            THEN shut \cup {Log(t)[i][1]} ELSE shut)

Clause(t) ==
    LET r == Trace[t] IN
    IF \E s \in {"out", "map"} :
            Count(t, s, "open") = 1 /\ Count(t, s, "close") = 0
    THEN "stream obtained from a factory is never closed"
    ELSE IF \E s \in {"out", "map"} : Count(t, s, "close") > 1
    THEN "stream closed more than once"
    ELSE IF \E s \in {"out", "map"} :
            Count(t, s, "open") = 0 /\ Count(t, s, "close") > 0
    THEN "stream passed in open was closed"
    ELSE IF ~NoUseAfterClose(t, 1, {}) THEN "stream used after close"
    ELSE IF r.faulted /\ ~r.propagated THEN "injected failure was swallowed"
    ELSE IF r.faulted /\ ~r.sameFailure
    THEN "a different failure reached the caller"
    ELSE IF ~r.faulted /\ r.raisedAnything THEN "raised without a fault"
    ELSE IF ~r.faulted /\ ~r.contentOK
    THEN "output is not the printer text plus sourceMappingURL"
    ELSE IF ~r.faulted /\ ~r.urlOK
    THEN "sourceMappingURL does not designate the map"
    ELSE IF ~r.faulted /\ ~r.mapOK
    THEN "map differs from what the lower-level API yields"
    ELSE IF ~r.faulted /\ ~r.sourceOK THEN "stream name not recorded as source"
    ELSE "ok"

Verdict == PrintT(ToJson(<<Trace[tid].id, Clause(tid)>>))
=============================================================================
