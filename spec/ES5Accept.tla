----------------------------- MODULE ES5Accept -----------------------------
(***************************************************************************)
(* The derivation machine of ES5Grammar run as a RECOGNISER over given     *)
(* token strings (with their line-break flags): a token may only be        *)
(* emitted if it is the next token of the input.  For every input it       *)
(* reports whether a complete derivation exists (and its product), and the *)
(* length of the longest viable prefix - the place where the input leaves  *)
(* the language, used to name violations (DESIGN appendix C).              *)
(***************************************************************************)
EXTENDS ES5Grammar, TLCExt

CONSTANTS Inputs,     \* sequence of <<classes, nlIndices>> pairs
          Slack       \* completions may be this much longer than the input

VARIABLE iid
avars == <<vars, iid>>

In(i)   == Inputs[i][1]
InNL(i) == {Inputs[i][2][k] : k \in 1..Len(Inputs[i][2])}

ASSUME \A i \in 1..Len(Inputs) : TLCSet(i, 0)

AInit == /\ iid \in 1..Len(Inputs)
         /\ Init

\* 7.6: an IdentifierName position (property name after "." or in an object
\* initialiser) also takes reserved words; lexically they are the same text
Words == {"ID", "IDN", "GET", "SET", "break", "case", "catch", "continue",
          "debugger", "default", "delete", "do", "else", "finally", "for",
          "function", "if", "in", "instanceof", "new", "return", "switch",
          "this", "throw", "try", "typeof", "var", "void", "while", "with",
          "null", "true", "false", "class", "const", "enum", "export",
          "extends", "import", "super"}
Matches(terminal, c) == terminal = c \/ (terminal = "IDN" /\ c \in Words)

\* only productions whose terminals all occur in this input can take part in
\* a derivation of it (the theme of the input, so to speak)
InSet(i) == {In(i)[k] : k \in 1..Len(In(i))}
AEnabled(rhs) == \A k \in 1..Len(rhs) :
                    rhs[k][1] = "t" =>
                        \/ rhs[k][2] \in InSet(iid)
                        \/ (rhs[k][2] = "IDN" /\ InSet(iid) \cap Words # {})

AExpand == /\ stack # <<>> /\ Head(stack)[1] = "n"
           /\ \E rhs \in Prods(Head(stack)) :
                /\ AEnabled(rhs)
                /\ LET n2 == need - MinLenSym(Head(stack)) + MinLenSeq(rhs)
                       f  == Flush(rhs \o Tail(stack), out) IN
                    /\ ntok + n2 <= Len(In(iid)) + Slack
                    /\ stack' = f[1] /\ out' = f[2] /\ need' = n2
           /\ UNCHANGED <<ntok, nls, pend, lastEnd, noLT, iid>>

AEmit == /\ ntok < Len(In(iid))
         /\ stack # <<>> /\ Head(stack)[1] = "t"
         /\ Matches(Head(stack)[2], In(iid)[ntok + 1])
         /\ EmitToken
         /\ ((ntok + 1) \in nls') = ((ntok + 1) \in InNL(iid))
         /\ UNCHANGED iid

ANext == \/ AExpand
         \/ (VirtualSemicolon /\ UNCHANGED iid)
         \/ (Restricted /\ UNCHANGED iid)
         \/ AEmit

ASpec == AInit /\ [][ANext]_avars

\* the longest prefix of the input that is a prefix of some derivation
Track == TLCSet(iid, IF TLCGet(iid) < ntok THEN ntok ELSE TLCGet(iid))

Accepted == Complete /\ ntok = Len(In(iid))
EmitAccepted == Accepted => PrintT(ToJson(<<"acc", iid, out>>))

Report == PrintT(ToJson(<<"viable", [i \in 1..Len(Inputs) |-> TLCGet(i)]>>))
=============================================================================
