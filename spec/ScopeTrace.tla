----------------------------- MODULE ScopeTrace -----------------------------
(***************************************************************************)
(* C07, Layer 1: what an identifier occurrence denotes (ECMA-262 5.1       *)
(* section 10: function scope, hoisting of var and function declarations,  *)
(* parameters, the own name of a named function expression in a scope of   *)
(* its own, the catch parameter scoped to the catch block) - and the       *)
(* property, judged on recorded renamings.                                 *)
(*                                                                         *)
(* record: scopes  <<kind, parent>>  kind in program / function / fname /  *)
(*                 catch; parent 0 for the program                         *)
(*         occs    <<scope, role, old, new>>  role in param / var /        *)
(*                 funcdecl / fname / catchparam / ref / prop              *)
(*         globals (obfuscate_globals), reserved (list of reserved words)  *)
(***************************************************************************)
EXTENDS Integers, Sequences, FiniteSets, TLC, Json, IOUtils

Trace == ndJsonDeserialize(IOEnv.TRACE_FILE)

VARIABLES tid
Init == tid \in 1..Len(Trace)
Next == UNCHANGED tid
Spec == Init /\ [][Next]_tid

Sc(t) == Trace[t].scopes
Oc(t) == Trace[t].occs
IsVarScope(t, s) == Sc(t)[s][1] \in {"program", "function"}

RECURSIVE FuncScope(_, _)
FuncScope(t, s) == IF IsVarScope(t, s) THEN s ELSE FuncScope(t, Sc(t)[s][2])

Name(o, which) == IF which = "old" THEN o[3] ELSE o[4]

\* names declared in scope s (with the old or the new spellings)
Declared(t, s, which) ==
    {Name(Oc(t)[i], which) : i \in {i \in 1..Len(Oc(t)) :
        LET o == Oc(t)[i] IN
        \/ (o[2] \in {"param", "funcdecl", "fname", "catchparam"} /\ o[1] = s)
        \/ (o[2] = "var" /\ IsVarScope(t, s) /\ FuncScope(t, o[1]) = s)}}

\* the scope chain of s, innermost first
RECURSIVE Chain(_, _)
Chain(t, s) == IF s = 0 THEN <<>> ELSE <<s>> \o Chain(t, Sc(t)[s][2])

\* the scope whose binding a name denotes when looked up from scope s
\* (0: free); decl is the table scope -> declared names.  Not recursive
\* itself: TLC evaluates the table once per record only then.
Lookup(t, s, n, decl) ==
    LET ch == Chain(t, s)
        hits == {k \in 1..Len(ch) : n \in decl[ch[k]]}
    IN IF hits = {} THEN 0
       ELSE ch[CHOOSE k \in hits : \A m \in hits : k <= m]

\* D: one tuple <<i, role, old, new, so, sn>> per occurrence, so / sn the
\* scope of the binding it denotes before / after (0 free, -1 property);
\* passed as an argument so that TLC computes it once per record
Judge(r, D) ==
    LET V == {d \in D : d[2] # "prop"} IN
    IF \E d \in D : d[2] = "prop" /\ d[3] # d[4]
    THEN "property name renamed"
    ELSE IF \E d \in V : d[5] = 0 /\ d[3] # d[4]
    THEN "free name renamed"
    ELSE IF \E d \in V : (d[5] = 0) # (d[6] = 0)
    THEN "bound / free status changed"
    ELSE IF ~r.globals /\ \E d \in V : d[5] = 1 /\ d[3] # d[4]
    THEN "top-level name renamed"
    \* same variable after iff same before: old -> new denotation is a
    \* function and it is injective (checked on sets, not on all pairs)
    ELSE IF LET both == {<< <<d[5], d[3]>>, <<d[6], d[4]>> >> : d \in V} IN
            \/ Cardinality(both) # Cardinality({p[1] : p \in both})
            \/ Cardinality(both) # Cardinality({p[2] : p \in both})
    THEN "binding structure changed"
    ELSE IF LET res == {r.reserved[k] : k \in 1..Len(r.reserved)} IN
            \E d \in V : d[3] # d[4] /\ d[4] \in res
    THEN "generated name is a reserved word"
    ELSE "ok"

Den(t, declOld, declNew) ==
    {LET o == Oc(t)[i] IN
     <<i, o[2], o[3], o[4],
       IF o[2] = "prop" THEN -1 ELSE Lookup(t, o[1], o[3], declOld),
       IF o[2] = "prop" THEN -1 ELSE Lookup(t, o[1], o[4], declNew)>>
     : i \in 1..Len(Oc(t))}

\* scope -> declared names, as an explicit function (k :> v @@ ...): TLC
\* would re-evaluate the body of [s \in ... |-> Declared(...)] at every
\* application
RECURSIVE Table(_, _, _)
Table(t, k, which) ==
    IF k = 1 THEN 1 :> Declared(t, 1, which)
    ELSE Table(t, k - 1, which) @@ (k :> Declared(t, k, which))

\* (tables and denotations are operator arguments, which TLC evaluates once)
Clause(t) ==
    Judge(Trace[t], Den(t, Table(t, Len(Sc(t)), "old"),
                          Table(t, Len(Sc(t)), "new")))

Verdict == PrintT(ToJson(<<Trace[tid].id, Clause(tid)>>))
=============================================================================
