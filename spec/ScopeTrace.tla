----------------------------- MODULE ScopeTrace -----------------------------
(***************************************************************************)
(* C07, code -> spec: renamings recorded from the real obfuscating         *)
(* printers, judged by the scope semantics of ScopeSem.tla.                *)
(*                                                                         *)
(* record: scopes  <<kind, parent>>, occs <<scope, role, old, new>>,       *)
(*         globals (obfuscate_globals), reserved (list of reserved words)  *)
(***************************************************************************)
EXTENDS ScopeSem, Json, IOUtils

Trace == ndJsonDeserialize(IOEnv.TRACE_FILE)

VARIABLES tid
Init == tid \in 1..Len(Trace)
Next == UNCHANGED tid
Spec == Init /\ [][Next]_tid

Clause(t) ==
    LET r == Trace[t] IN
    ClauseOf(r.scopes, r.occs, r.globals,
             {r.reserved[k] : k \in 1..Len(r.reserved)})

Verdict == PrintT(ToJson(<<Trace[tid].id, Clause(tid)>>))
=============================================================================
