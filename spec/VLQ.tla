------------------------------- MODULE VLQ -------------------------------
(***************************************************************************)
(* Base64 VLQ as used by Source Map V3 (Layer 1), and the shift /          *)
(* continuation-bit loops of calmjs.parse.vlq (Layer 2), model-checked     *)
(* against each other.                                                     *)
(*                                                                         *)
(* Integers are unbounded in the property but 32 bit in TLC, so a value is *)
(* <<neg, limbs>>: limbs is the magnitude in base 32, little endian, no    *)
(* most-significant zero limb; zero is <<FALSE, <<>> >>.  A VLQ string is  *)
(* a sequence of base64 digit values 0..63 (the alphabet is applied by the *)
(* harness); in a mappings string 64 stands for ';' and 65 for ','.        *)
(***************************************************************************)
EXTENDS Naturals, Sequences, FiniteSets, TLC, Json

CONSTANTS MaxLimbs,   \* every value with at most this many limbs is explored
          MaxK,       \* boundary patterns with up to this many limbs
          Pool,       \* values used inside lists / mappings (sequence)
          MaxLines    \* mapping structures: at most this many lines

Limb == 0..31
CONT == 32

RECURSIVE StripMS(_)
StripMS(s) == IF s = <<>> THEN s
              ELSE IF s[Len(s)] = 0 THEN StripMS(SubSeq(s, 1, Len(s) - 1))
              ELSE s

IsValue(v) == /\ v[2] = StripMS(v[2])
              /\ (v[1] => v[2] # <<>>)

(*************************** Layer 1: the format ***************************)
\* raw = 2 * magnitude + sign, limb by limb with carry
RECURSIVE ShiftL(_, _)
ShiftL(limbs, carry) ==
    IF limbs = <<>> THEN (IF carry = 0 THEN <<>> ELSE <<carry>>)
    ELSE <<(2 * Head(limbs) + carry) % 32>>
         \o ShiftL(Tail(limbs), Head(limbs) \div 16)

Raw(v) == ShiftL(v[2], IF v[1] THEN 1 ELSE 0)

\* 5-bit groups little endian, continuation bit on all but the last
Encode(v) == LET r == Raw(v) IN
    IF r = <<>> THEN <<0>>
    ELSE [i \in 1..Len(r) |-> IF i < Len(r) THEN r[i] + CONT ELSE r[i]]

WellFormed(ds) == /\ Len(ds) >= 1
                  /\ \A i \in 1..Len(ds) :
                        (i < Len(ds)) <=> (ds[i] >= CONT)
                  /\ \A i \in 1..Len(ds) : ds[i] \in 0..63

Canonical(ds) == /\ WellFormed(ds)
                 /\ (Len(ds) > 1 => ds[Len(ds)] # 0)   \* no leading zero group
                 /\ ds # <<1>>                          \* no negative zero

RECURSIVE ShiftR(_)
ShiftR(g) == IF g = <<>> THEN <<>>
             ELSE <<(Head(g) \div 2)
                    + (IF Len(g) > 1 THEN (g[2] % 2) * 16 ELSE 0)>>
                  \o ShiftR(Tail(g))

Decode(ds) == LET g   == [i \in 1..Len(ds) |-> ds[i] % 32]
                  mag == StripMS(ShiftR(g))
              IN <<(g[1] % 2 = 1) /\ mag # <<>>, mag>>

\* lists: concatenation; decoding cuts after every digit without CONT
RECURSIVE Concat(_)
Concat(ss) == IF ss = <<>> THEN <<>> ELSE Head(ss) \o Concat(Tail(ss))

EncodeList(vs) == Concat([i \in 1..Len(vs) |-> Encode(vs[i])])

RECURSIVE SplitGroups(_, _)
SplitGroups(ds, cur) ==
    IF ds = <<>> THEN <<>>      \* a dangling continuation yields nothing
    ELSE IF Head(ds) < CONT
         THEN <<Append(cur, Head(ds))>> \o SplitGroups(Tail(ds), <<>>)
         ELSE SplitGroups(Tail(ds), Append(cur, Head(ds)))

DecodeList(ds) == LET gs == SplitGroups(ds, <<>>)
                  IN [i \in 1..Len(gs) |-> Decode(gs[i])]

\* mappings: lines joined by ';' (64), segments joined by ',' (65)
SEMI == 64
COMMA == 65

RECURSIVE Join(_, _)
Join(ss, sep) == IF ss = <<>> THEN <<>>
                 ELSE IF Len(ss) = 1 THEN ss[1]
                 ELSE ss[1] \o <<sep>> \o Join(Tail(ss), sep)

EncodeLine(line) == Join([i \in 1..Len(line) |-> EncodeList(line[i])], COMMA)
EncodeMappings(m) == Join([i \in 1..Len(m) |-> EncodeLine(m[i])], SEMI)

RECURSIVE SplitOn(_, _, _)
SplitOn(ds, sep, cur) ==
    IF ds = <<>> THEN <<cur>>
    ELSE IF Head(ds) = sep THEN <<cur>> \o SplitOn(Tail(ds), sep, <<>>)
         ELSE SplitOn(Tail(ds), sep, Append(cur, Head(ds)))

RECURSIVE DropEmpty(_)
DropEmpty(ss) == IF ss = <<>> THEN <<>>
                 ELSE IF Head(ss) = <<>> THEN DropEmpty(Tail(ss))
                 ELSE <<Head(ss)>> \o DropEmpty(Tail(ss))

DecodeLine(ds) == LET segs == DropEmpty(SplitOn(ds, COMMA, <<>>))
                  IN [i \in 1..Len(segs) |-> DecodeList(segs[i])]
DecodeMappings(ds) == LET ls == SplitOn(ds, SEMI, <<>>)
                      IN [i \in 1..Len(ls) |-> DecodeLine(ls[i])]

(************************ what the model explores ************************)
SeqsUpTo(S, n) == UNION {[1..k -> S] : k \in 0..n}

Rep(x, k) == [i \in 1..k |-> x]

Boundary == UNION {
    { Rep(0, k) \o <<1>>, Rep(0, k) \o <<15>>, Rep(0, k) \o <<16>>,
      Rep(31, k) \o <<1>>, Rep(31, k) \o <<15>>, Rep(31, k) \o <<16>>,
      Rep(31, k + 1), Rep(21, k) \o <<10>> } : k \in 0..(MaxK - 1) }

Magnitudes == {s \in SeqsUpTo(Limb, MaxLimbs) : s = StripMS(s)} \cup Boundary

Values == {<<FALSE, m>> : m \in Magnitudes}
          \cup {<<TRUE, m>> : m \in Magnitudes \ {<<>>}}

PoolVal(i) == Pool[((i - 1) % Len(Pool)) + 1]

\* list shapes: all lists of length <= 3 over the pool
Lists == SeqsUpTo({Pool[i] : i \in 1..Len(Pool)}, 3)

\* mapping shapes: per line up to 2 segments of arity 1 / 4 / 5, values
\* taken from the pool by position, rotated by r
Arity == {1, 4, 5}
LineShapes == SeqsUpTo(Arity, 2)
MapShapes == UNION {[1..k -> LineShapes] : k \in 1..MaxLines}

Fill(shape, r) ==
    [l \in 1..Len(shape) |->
        [s \in 1..Len(shape[l]) |->
            [f \in 1..shape[l][s] |-> PoolVal(r + 7 * l + 3 * s + f)]]]

Items == {<<"val", v>> : v \in Values}
         \cup {<<"list", vs>> : vs \in Lists}
         \cup {<<"map", Fill(sh, r)>> : sh \in MapShapes, r \in 0..(Len(Pool) - 1)}

(***************** Layer 2: the loops of calmjs.parse.vlq *****************)
VARIABLES pc, item, raw, out, acc, inp, res
vars == <<pc, item, raw, out, acc, inp, res>>

Init == /\ item \in Items
        /\ pc = IF item[1] = "val" THEN "enc" ELSE "done"
        /\ raw = <<>> /\ out = <<>> /\ acc = <<>> /\ inp = <<>>
        /\ res = <<FALSE, <<>> >>

\* encode_vlq: raw = (-i << 1) + 1 if i < 0 else i << 1; short circuit < 16
EncStart ==
    /\ pc = "enc"
    /\ LET r == Raw(item[2]) IN
        IF r = <<>> \/ (Len(r) = 1 /\ r[1] < 16)
        THEN /\ out' = <<IF r = <<>> THEN 0 ELSE r[1]>>
             /\ raw' = <<>>
             /\ pc' = "dec"
        ELSE /\ raw' = r /\ out' = <<>> /\ pc' = "encloop"
    /\ UNCHANGED <<item, acc, inp, res>>

\* while raw: result.append(raw & 31 | 32); raw >>= 5
EncLoop ==
    /\ pc = "encloop" /\ raw # <<>>
    /\ out' = Append(out, Head(raw) + CONT)
    /\ raw' = Tail(raw)
    /\ UNCHANGED <<pc, item, acc, inp, res>>

\* result[-1] &= 31
EncFinish ==
    /\ pc = "encloop" /\ raw = <<>>
    /\ out' = [out EXCEPT ![Len(out)] = @ % 32]
    /\ pc' = "dec"
    /\ UNCHANGED <<item, raw, acc, inp, res>>

\* vlq_decoder: i = ((31 & raw) << shift) | i ; shift += 5
DecStart ==
    /\ pc = "dec"
    /\ inp' = out /\ acc' = <<>> /\ pc' = "decloop"
    /\ UNCHANGED <<item, raw, out, res>>

DecLoop ==
    /\ pc = "decloop" /\ inp # <<>>
    /\ acc' = Append(acc, Head(inp) % 32)
    /\ inp' = Tail(inp)
    /\ IF Head(inp) < CONT
       THEN \* sign = -1 if 1 & i else 1 ; yield (i >> 1) * sign
            /\ res' = LET mag == StripMS(ShiftR(acc')) IN
                        <<(acc'[1] % 2 = 1) /\ mag # <<>>, mag>>
            /\ pc' = "done"
       ELSE UNCHANGED <<res, pc>>
    /\ UNCHANGED <<item, raw, out>>

Next == EncStart \/ EncLoop \/ EncFinish \/ DecStart \/ DecLoop

Spec == Init /\ [][Next]_vars

(******************************* properties *******************************)
TypeOK == pc \in {"enc", "encloop", "dec", "decloop", "done"}

\* Layer 2 encoder = Layer 1 format
EncoderMatchesFormat ==
    (item[1] = "val" /\ pc \in {"dec", "decloop", "done"})
        => out = Encode(item[2])

\* Layer 2 decoder inverts it, nothing left over
DecoderInverts ==
    (item[1] = "val" /\ pc = "done") => (res = item[2] /\ inp = <<>>)

\* Layer 1 is a canonical bijection
RoundTripValue ==
    item[1] = "val" =>
        LET e == Encode(item[2]) IN
            /\ Canonical(e)
            /\ Decode(e) = item[2]
            /\ Encode(Decode(e)) = e
            /\ IsValue(item[2])

RoundTripList ==
    item[1] = "list" => DecodeList(EncodeList(item[2])) = item[2]

RoundTripMap ==
    item[1] = "map" => DecodeMappings(EncodeMappings(item[2])) = item[2]

\* every canonical digit string of length <= MaxLimbs is the encoding of
\* the value it decodes to (decode then encode is the identity)
CanonStrings == {s \in SeqsUpTo(0..63, MaxLimbs) : Len(s) >= 1 /\ Canonical(s)}
ASSUME \A s \in CanonStrings : Encode(Decode(s)) = s /\ IsValue(Decode(s))

\* table for the replay into the implementation (one JSON line per item)
Emit ==
    pc = "done" =>
        PrintT(ToJson(
            IF item[1] = "val" THEN <<"val", item[2][1], item[2][2], out>>
            ELSE IF item[1] = "list"
                 THEN <<"list", item[2], EncodeList(item[2])>>
                 ELSE <<"map", item[2], EncodeMappings(item[2])>>))
=============================================================================
