------------------------------ MODULE PureCalls ------------------------------
(***************************************************************************)
(* C14 / C15 (and the maintenance histories of C17): results are a pure    *)
(* function of the arguments - whatever was called before on the same      *)
(* objects, also calls that were abandoned midway or that raised, and      *)
(* whatever else is alive at the same time.                                *)
(*                                                                         *)
(* (1) Generator of histories.  An actor is a generator object / thread;   *)
(* an operation starts a call (printer x tree, or text x flag), steps it,  *)
(* finishes it, abandons it or makes it raise.  A behaviour is one history *)
(* of at most MaxLen operations with at most MaxLive calls alive at once;  *)
(* complete histories are handed to the harness, which performs them on    *)
(* the real objects.                                                       *)
(* (2) The property, as a trace specification (PureTrace below): every     *)
(* finished call returns Ref[call]; the snapshot of the arguments and of   *)
(* the shared (per-class, per-module) objects never changes.               *)
(***************************************************************************)
EXTENDS Naturals, Sequences, FiniteSets, TLC, Json

CONSTANTS Calls,      \* the possible calls (ids of (printer, tree) pairs ...)
          MaxLen, MaxLive,
          Kinds       \* how a call may end: subset of {"finish", "abandon", "raise"}

VARIABLES hist,       \* operations so far: <<op, call>>
          live        \* calls that were started and not ended, in order
vars == <<hist, live>>

Init == hist = <<>> /\ live = <<>>

Start(c) == /\ Len(live) < MaxLive /\ Len(hist) < MaxLen
            /\ hist' = Append(hist, <<"start", c>>)
            /\ live' = Append(live, c)

\* advance the i-th live call by one step (interleaving of live calls)
Step(i) == /\ i \in 1..Len(live) /\ Len(live) > 1 /\ Len(hist) < MaxLen
           /\ hist' = Append(hist, <<"step", i>>)
           /\ UNCHANGED live

End(i, k) == /\ i \in 1..Len(live) /\ Len(hist) < MaxLen /\ k \in Kinds
             /\ hist' = Append(hist, <<k, i>>)
             /\ live' = [j \in 1..(Len(live) - 1) |->
                            IF j < i THEN live[j] ELSE live[j + 1]]

Next == \/ \E c \in Calls : Start(c)
        \/ \E i \in 1..MaxLive : Step(i)
        \/ \E i \in 1..MaxLive, k \in Kinds : End(i, k)

Spec == Init /\ [][Next]_vars

\* histories worth replaying: full length, ending with a finished call
Complete == Len(hist) = MaxLen /\ hist[Len(hist)][1] = "finish"
Emit == Complete => PrintT(ToJson(hist))
=============================================================================
