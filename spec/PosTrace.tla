------------------------------ MODULE PosTrace ------------------------------
(***************************************************************************)
(* Code -> spec for every property that speaks about source positions      *)
(* (C11 node positions and token maps, C08 fragment positions, C12 error   *)
(* positions, C13 comment positions).                                      *)
(*                                                                         *)
(* A record holds a text (character-class codes) and PROBES                *)
(*     <<off, line, col, fact, tag>>                                       *)
(* sorted by offset: the code claims that offset `off` is at line:col.     *)
(* The machine walks the text once with LineCol counting; at each probe    *)
(* the claim must equal the position reached.  `fact` is a fact about raw  *)
(* text (e.g. "the text at off starts with this token") computed by the    *)
(* harness and asserted here, so that the verdict and the failing clause   *)
(* come from TLC.  One behaviour per record; the verdict names the first   *)
(* failing probe.                                                          *)
(***************************************************************************)
EXTENDS LineCol, TLC, Json, IOUtils

Trace == ndJsonDeserialize(IOEnv.TRACE_FILE)

VARIABLES tid, pos, k, why
vars == <<tid, pos, k, why>>

Text(t) == Trace[t].cls
Probes(t) == Trace[t].probes

Init == /\ tid \in 1..Len(Trace)
        /\ pos = Start /\ k = 1 /\ why = "run"

AtProbe == k <= Len(Probes(tid)) /\ Probes(tid)[k][1] = pos.off

ProbeStep ==
    /\ why = "run" /\ AtProbe
    /\ LET p == Probes(tid)[k] IN
        IF p[2] # pos.line \/ p[3] # pos.col
        THEN why' = "position" /\ UNCHANGED k
        ELSE IF ~p[4] THEN why' = "fact" /\ UNCHANGED k
        ELSE k' = k + 1 /\ UNCHANGED why
    /\ UNCHANGED <<tid, pos>>

Advance ==
    /\ why = "run" /\ ~AtProbe
    /\ IF k > Len(Probes(tid)) THEN why' = "ok" /\ UNCHANGED pos
       ELSE IF Probes(tid)[k][1] < pos.off \/ pos.off >= Len(Text(tid))
            THEN why' = "offset" /\ UNCHANGED pos     \* unsorted / outside
            ELSE pos' = Eat(pos, Text(tid)[pos.off + 1]) /\ UNCHANGED why
    /\ UNCHANGED <<tid, k>>

Next == ProbeStep \/ Advance
Spec == Init /\ [][Next]_vars

Verdict == why # "run" => PrintT(ToJson(<<Trace[tid].id, why, k>>))
=============================================================================
