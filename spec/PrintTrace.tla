----------------------------- MODULE PrintTrace -----------------------------
(***************************************************************************)
(* C01 / C02 / C13 / C20, code -> spec: what an unparser printed, aligned  *)
(* to the tokens the derivation dictates for the tree, judged clause by    *)
(* clause.  One behaviour per printed program; the machine walks the       *)
(* expected items                                                          *)
(*   <<present, role, droppable, fused, sepHasLT, restricted,              *)
(*     lineStart, indentOK, followerClosesOrEnds, followerOffends>>        *)
(* and stops at the first clause that fails:                               *)
(*  - an absent token must be a ";" that automatic semicolon insertion     *)
(*    restores (statement terminator followed by "}" / end of text, or by  *)
(*    a line break and an offending token) or a stand-alone empty          *)
(*    statement of a statement list; never a for-header ";" nor the ";"    *)
(*    that is the body of a loop / if / with / label                       *)
(*  - two tokens written next to each other must not fuse (oracle:         *)
(*    ES5Lexical.tla, evaluated by FuseTrace.tla)                          *)
(*  - no line terminator in a restricted position                          *)
(*  - a token that starts a line is indented by indent_str x depth         *)
(* and at the end: exactly one final newline, indentation level zero.      *)
(***************************************************************************)
EXTENDS Naturals, Sequences, TLC, Json, IOUtils

Trace == ndJsonDeserialize(IOEnv.TRACE_FILE)

VARIABLES tid, k, why
vars == <<tid, k, why>>

Items(t) == Trace[t].items

Init == tid \in 1..Len(Trace) /\ k = 1 /\ why = "run"

Judge(it) ==
    LET present == it[1]  role == it[2]  droppable == it[3]  fused == it[4]
        sepLT == it[5]  restricted == it[6]  lineStart == it[7]
        indentOK == it[8]  closes == it[9]  offends == it[10] IN
    IF ~present
    THEN (IF role = "term" \/ role = "virtual"
          THEN (IF closes \/ offends THEN "ok"
                ELSE "dropped semicolon is not restored by ASI")
          ELSE IF role = "empty"
          THEN (IF droppable THEN "ok"
                ELSE "dropped the semicolon that is a statement body")
          ELSE IF role = "for" THEN "dropped a for-header semicolon"
          ELSE "token missing")
    ELSE IF fused THEN "tokens fuse"
    ELSE IF restricted /\ sepLT
         THEN "line terminator in a restricted position"
    ELSE IF lineStart /\ ~indentOK THEN "indentation"
    ELSE "ok"

Step == /\ why = "run" /\ k <= Len(Items(tid))
        /\ LET j == Judge(Items(tid)[k]) IN
            IF j = "ok" THEN k' = k + 1 /\ UNCHANGED why
            ELSE why' = j /\ UNCHANGED k
        /\ UNCHANGED tid

Finish == /\ why = "run" /\ k > Len(Items(tid))
          /\ why' = IF ~Trace[tid].aligned THEN "not the same token sequence"
                    ELSE IF Trace[tid].checkEnd /\ Trace[tid].finalNewlines # 1
                    THEN "final newline"
                    ELSE IF Trace[tid].finalLevel # 0 THEN "indentation level"
                    ELSE "ok"
          /\ UNCHANGED <<tid, k>>

Next == Step \/ Finish
Spec == Init /\ [][Next]_vars

Verdict == why # "run" => PrintT(ToJson(<<Trace[tid].id, why, k>>))
=============================================================================
