------------------------------ MODULE TabsImpl ------------------------------
(***************************************************************************)
(* C17: where the lexer / LALR tables of a parser come from.               *)
(*   disk   - the generated lextab / yacctab modules next to es5.py        *)
(*   cached - whether this interpreter already imported them (sys.modules) *)
(* Maintenance actions of calmjs.parse.parsers.optimize and the three ways *)
(* of building a parser.  Every history of at most MaxLen actions is       *)
(* handed to the harness, which performs it in a fresh interpreter on a    *)
(* scratch copy and then parses the input pool with each configuration;    *)
(* the outcomes must equal the reference whatever the history (the tables  *)
(* are always rebuilt from the same, unchanged sources).  The model also   *)
(* predicts whether the modules exist on disk afterwards (drift report).   *)
(***************************************************************************)
EXTENDS Naturals, Sequences, TLC, Json

CONSTANTS MaxLen

Actions == {"parse_default", "parse_inmemory", "purge", "reoptimize",
            "optimize_build"}

VARIABLES hist, disk, cached, disk0
vars == <<hist, disk, cached, disk0>>

Init == /\ hist = <<>> /\ disk \in {"absent", "generated"} /\ cached = FALSE
        /\ disk0 = disk

Do(a) ==
    /\ Len(hist) < MaxLen
    /\ hist' = Append(hist, a) /\ UNCHANGED disk0
    /\ CASE a = "parse_default" ->
                \* Parser(): optimised mode loads the modules, or builds the
                \* tables and writes the modules when they are missing
                disk' = "generated" /\ cached' = TRUE
         [] a = "parse_inmemory" ->
                \* Parser(lex_optimize=False, yacc_optimize=False): tables
                \* built from the sources; ply writes the table module too
                disk' = "generated" /\ cached' = TRUE
         [] a = "purge" -> disk' = "absent" /\ cached' = FALSE
         [] a = "reoptimize" -> disk' = "generated" /\ cached' = TRUE
         [] a = "optimize_build" ->
                disk' = "generated" /\ cached' = (disk = "absent")

Next == \E a \in Actions : Do(a)
Spec == Init /\ [][Next]_vars

Emit == Len(hist) = MaxLen =>
            PrintT(ToJson(<<disk0, hist, disk = "generated">>))
=============================================================================
