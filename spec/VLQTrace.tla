----------------------------- MODULE VLQTrace -----------------------------
(***************************************************************************)
(* Code -> spec: records [v, enc, dec] taken from the real encode_vlq /    *)
(* decode_vlq are replayed through the VLQ machine; one behaviour per      *)
(* record, the verdict for every record is printed (total verdicts).       *)
(***************************************************************************)
EXTENDS VLQ, IOUtils

Trace == ndJsonDeserialize(IOEnv.TRACE_FILE)

VARIABLE tid
tvars == <<vars, tid>>

TInit == /\ tid \in 1..Len(Trace)
         /\ item = <<"val", <<Trace[tid].v[1], Trace[tid].v[2]>> >>
         /\ pc = "enc"
         /\ raw = <<>> /\ out = <<>> /\ acc = <<>> /\ inp = <<>>
         /\ res = <<FALSE, <<>> >>

TNext == Next /\ UNCHANGED tid
TSpec == TInit /\ [][TNext]_tvars

Clause ==
    IF ~IsValue(item[2]) THEN "recorded value not canonical"
    ELSE IF out # Trace[tid].enc THEN "encode_vlq differs from the format"
    ELSE IF res # <<Trace[tid].dec[1], Trace[tid].dec[2]>>
         THEN "decode_vlq differs from the format"
    ELSE IF ~Canonical(Trace[tid].enc) THEN "not canonical"
    ELSE "ok"

Verdict == pc = "done" => PrintT(ToJson(<<Trace[tid].id, Clause>>))
=============================================================================
