----------------------------- MODULE SlashImpl -----------------------------
(***************************************************************************)
(* C05, Layer 2: how the implementation decides whether a `/` is a         *)
(* division or the start of a regular expression literal -                 *)
(*   lexers/es5.py  Lexer._real_token: the previous real token must be in  *)
(*                  TOKENS_THAT_IMPLY_DIVISON (or be a reserved word used  *)
(*                  as a property name), and the head of token_stack[-1]   *)
(*                  must be None, the previous token itself, or imply a    *)
(*                  division (it is the for / while / if / with keyword    *)
(*                  right after the `)` that closes such a header);        *)
(*                  _set_tokens / _get_update_token keep cur, prev and the *)
(*                  stack of header parentheses;                           *)
(*   parsers/es5.py Parser.p_error: a `/` read as a division that the      *)
(*                  grammar cannot take is read again as a regex if a      *)
(*                  semicolon was just inserted in front of it, or if the  *)
(*                  previous token is `}`, `++` or `--` -                  *)
(* run on every sentence the derivation machine ES5Grammar.tla produces,   *)
(* and compared with what the grammar dictates for that `/` (Layer 1).     *)
(*                                                                         *)
(* EmitSlash prints, per sentence, the product, the line-break flags and   *)
(* per `/` token <<token index, first reading, final reading>>; the        *)
(* harness compares both readings with the token types the real lexer      *)
(* handed to the parser at that offset (spec -> code conformance).         *)
(***************************************************************************)
EXTENDS ES5Grammar

Slashy == {"/", "/=", "REGEX"}
Headers == {"for", "while", "if", "with"}

\* a token is <<class, nl, id, owner>>; id 0 = None, 1000 + i = the division
\* token that was given up when the parser made the lexer read token i as a
\* regex; owner = kind of the node of the derivation the token belongs to
NoTok == <<"", FALSE, 0, "">>

\* TOKENS_THAT_IMPLY_DIVISON in terms of token classes (++ / -- after a
\* line terminator are LTPLUSPLUS / LTMINUSMINUS: prefix operators; an
\* IdentifierName after `.` is an operand whatever its spelling)
ImpliesDiv(t) ==
    \/ t[1] \in {"ID", "IDN", "NUM", "STR", "REGEX", "true", "false", "null",
                 "this", ")", "}", "]"}
    \/ (t[1] \in {"++", "--"} /\ ~t[2])

\* p_error: valid_prev_token.type in (RBRACE, PLUSPLUS, MINUSMINUS) - but
\* p_error is only reached if the parser cannot take the division token.
\* NAMED DEVIATION (known finding of C05): the grammar of parsers/es5.py
\* also reads `function f(){}` at the start of a statement as a function
\* expression (member_expr_nobf : function_expr), so after the `}` of a
\* function DECLARATION a division is accepted and nothing is re-read.
AfterFuncDecl(t) == t[1] = "}" /\ t[4] = "FuncDecl"
MayBacktrack(t) == (t[1] = "}" /\ ~AfterFuncDecl(t))
                   \/ (t[1] \in {"++", "--"} /\ ~t[2])

L0 == [cur |-> NoTok, prev |-> NoTok,
       stack |-> << [head |-> NoTok, inner |-> 0] >>,
       semi |-> FALSE,          \* a semicolon was just inserted (7.9)
       nodes |-> <<>>,          \* kinds of the open nodes of the derivation
       n |-> 0, res |-> <<>>]

\* _set_tokens(new) followed by the parenthesis bookkeeping of
\* _get_update_token
SetTokens(st, new, parens) ==
    LET top  == Len(st.stack)
        s1   == [st.stack EXCEPT ![top].head = st.cur]
        prev == st.cur
        s2   == IF ~parens THEN s1
                ELSE IF new[1] = "("
                THEN IF prev[1] \in Headers
                     THEN Append(s1, [head |-> new, inner |-> 0])
                     ELSE [s1 EXCEPT ![top].inner = @ + 1]
                ELSE IF new[1] = ")"
                THEN IF s1[top].inner > 0
                     THEN [s1 EXCEPT ![top].inner = @ - 1]
                     ELSE SubSeq(s1, 1, top - 1)
                ELSE s1
    IN [st EXCEPT !.cur = new, !.prev = prev, !.stack = s2, !.semi = FALSE]

LStep(st, it, nl) ==
    IF it[1] = "V" THEN [st EXCEPT !.semi = TRUE]
    ELSE IF it[1] = "(" THEN [st EXCEPT !.nodes = Append(@, it[2])]
    ELSE IF it[1] = ")" THEN [st EXCEPT !.nodes = SubSeq(@, 1, Len(@) - 1)]
    ELSE IF it[1] # "T" THEN st
    ELSE
    LET i   == st.n + 1
        own == IF st.nodes = <<>> THEN "" ELSE st.nodes[Len(st.nodes)]
        tok == <<it[2], (i \in nl), i, own>>
        s0  == [st EXCEPT !.n = i]
    IN
    IF it[2] \notin Slashy THEN SetTokens(s0, tok, TRUE)
    ELSE
    LET top      == st.stack[Len(st.stack)]
        allowed  == /\ st.cur # NoTok /\ ImpliesDiv(st.cur)
                    /\ \/ top.head = NoTok
                       \/ top.head = st.prev
                       \/ ImpliesDiv(top.head)
        first    == IF allowed THEN "div" ELSE "regex"
        dictated == IF it[2] = "REGEX" THEN "regex" ELSE "div"
        recover  == /\ first = "div" /\ dictated = "regex"
                    /\ \/ (st.semi /\ (i \in nl))      \* auto_semi_token
                       \/ MayBacktrack(st.cur)      \* valid_prev_token
        final    == IF first = dictated THEN first
                    ELSE IF recover THEN "regex"
                    ELSE IF first = "div" /\ AfterFuncDecl(st.cur)
                    THEN "div-after-function-declaration"
                    ELSE "wrong"
        \* the state after the final reading: a regex that was reached by
        \* backtracking has the abandoned division token as prev
        s1 == IF first = dictated
              THEN SetTokens(s0, tok, first = "div")
              ELSE IF ~recover THEN SetTokens(s0, tok, TRUE)
              ELSE SetTokens(SetTokens(s0, <<"/", (i \in nl), 1000 + i, "">>,
                                       TRUE), tok, FALSE)
    IN [s1 EXCEPT !.res = Append(@, <<i, first, final, dictated>>)]

RECURSIVE LFold(_, _, _, _)
LFold(st, o, k, nl) ==
    IF k > Len(o) THEN st ELSE LFold(LStep(st, o[k], nl), o, k + 1, nl)

Decisions(o, nl) == LFold(L0, o, 1, nl).res

\* every `/` of every derivable sentence ends up as the grammar dictates -
\* up to the named deviation, after which the rest of the sentence is lexed
\* differently anyway
RECURSIVE AllOK(_, _)
AllOK(d, k) ==
    IF k > Len(d) THEN TRUE
    ELSE IF d[k][3] = "div-after-function-declaration" THEN TRUE
    ELSE d[k][3] = d[k][4] /\ AllOK(d, k + 1)
SlashDecisionsOK == Complete => AllOK(Decisions(out, nls), 1)

EmitSlash ==
    Complete => PrintT(ToJson(<<out, SetToSeq(nls), Decisions(out, nls)>>))
=============================================================================
