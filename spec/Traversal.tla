----------------------------- MODULE Traversal -----------------------------
(***************************************************************************)
(* Layer 1 for C16: what it means to walk a tree - a depth-first pre-order *)
(* visit of the tree found by ATTRIBUTE REFLECTION (not by the children()  *)
(* methods under test): every node exactly once, a node before all of its  *)
(* descendants, subtrees contiguous; sibling order is left open.           *)
(*                                                                         *)
(* Trace validation in batch: each record holds the reflected tree, the    *)
(* order Walker().walk yielded (twice), and filter / extract results.      *)
(* One behaviour per record; Visit(id) is enabled only if `id` is a legal  *)
(* next node of a pre-order walk.                                          *)
(***************************************************************************)
EXTENDS Naturals, Sequences, FiniteSets, TLC, Json, IOUtils

Trace == ndJsonDeserialize(IOEnv.TRACE_FILE)

VARIABLES tid,     \* record being validated
          l,       \* next event of the record's walk
          path,    \* open path: sequence of <<node, children not yet visited>>
          seen     \* nodes visited so far
vars == <<tid, l, path, seen>>

Ch(t, n) == {Trace[t].ch[n][k] : k \in 1..Len(Trace[t].ch[n])}
Walk(t) == Trace[t].walk
NNodes(t) == Len(Trace[t].ch)         \* node 1 is the root, never yielded

RECURSIVE PopDone(_)
PopDone(p) == IF p # <<>> /\ p[Len(p)][2] = {}
              THEN PopDone(SubSeq(p, 1, Len(p) - 1)) ELSE p

Init == /\ tid \in 1..Len(Trace)
        /\ l = 1
        /\ path = PopDone(<< <<1, Ch(tid, 1)>> >>)
        /\ seen = {}

\* the next node a pre-order walk may yield: an unvisited child of the
\* deepest node of the open path that still has unvisited children
Visit(id) ==
    /\ path # <<>>
    /\ id \in path[Len(path)][2]
    /\ id \notin seen
    /\ seen' = seen \cup {id}
    /\ path' = PopDone(
            Append([path EXCEPT ![Len(path)][2] = @ \ {id}],
                   <<id, Ch(tid, id)>>))

Next == /\ l <= Len(Walk(tid))
        /\ Visit(Walk(tid)[l])
        /\ l' = l + 1
        /\ UNCHANGED tid

Spec == Init /\ [][Next]_vars

(* verdict of a record, evaluated where no further event can be matched *)
CanVisit(id) == path # <<>> /\ id \in path[Len(path)][2] /\ id \notin seen
Stuck == l > Len(Walk(tid)) \/ ~CanVisit(Walk(tid)[l])

SelectKind(t, k) == SelectSeq(Walk(t), LAMBDA n : Trace[t].kinds[n] = k)

FilterOK(t) ==
    \A i \in 1..Len(Trace[t].filters) :
        Trace[t].filters[i][2] = SelectKind(t, Trace[t].filters[i][1])

\* extract(kind, skip) = the skip-th match, 0 when TypeError('no match')
ExtractOK(t) ==
    \A i \in 1..Len(Trace[t].extracts) :
        LET e == Trace[t].extracts[i]
            m == SelectKind(t, e[1]) IN
        e[3] = IF e[2] < Len(m) THEN m[e[2] + 1] ELSE 0

Clause ==
    IF l <= Len(Walk(tid))
    THEN (IF Walk(tid)[l] \in seen THEN "node yielded twice"
          ELSE IF Walk(tid)[l] = 1 THEN "root yielded"
          ELSE "not a pre-order step")
    ELSE IF path # <<>> \/ Cardinality(seen) # NNodes(tid) - 1
         THEN "node stored in an attribute never yielded"
    ELSE IF Trace[tid].walk2 # Walk(tid) THEN "second walk differs"
    \* a tree of the same text on which the first iterations ever made were
    \* abandoned ones (extract, a filter and a walk that were not exhausted)
    ELSE IF Trace[tid].walk3 # Walk(tid)
    THEN "walk after abandoned iterations differs"
    ELSE IF ~FilterOK(tid) THEN "filter is not walk-then-select"
    ELSE IF ~ExtractOK(tid) THEN "extract is not the n-th match"
    ELSE "ok"

Verdict == Stuck => PrintT(ToJson(<<Trace[tid].id, Clause, l - 1>>))
=============================================================================
