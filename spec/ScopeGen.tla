------------------------------ MODULE ScopeGen ------------------------------
(***************************************************************************)
(* C07: abstract programs as scope trees, generated top-down.  The product *)
(* `out` lists, in source order,                                           *)
(* pairs <<kind, name>>:                                                   *)
(*   F n  open a function declaration named n   E n / E "" open a (named / *)
(*   anonymous) function expression             C n  open catch (n)        *)
(*   ) "" close the innermost of these                                     *)
(*   P n  a parameter of the function just opened                          *)
(*   V n  var n        R n  a reference to n        p n  property .n       *)
(* Names range over Names (some of which are never declared in a run and   *)
(* are therefore free).  The harness renders the text; what each           *)
(* occurrence denotes is decided by ScopeTrace.tla, not here.              *)
(***************************************************************************)
EXTENDS Naturals, Sequences, TLC, Json

CONSTANTS Names, MaxItems, MaxDepth, MaxParams

VARIABLES stack, out, items
vars == <<stack, out, items>>

\* stack symbols: <<"B", depth, blk>> a body (statement list) still open,
\* blk = TRUE for a catch block (ES5 gives no meaning to a function
\* declaration in a block, so none is generated there);
\* <<"A", k>> up to k more parameters; <<"e", text>> emit
Init == stack = << <<"B", 0, FALSE>> >> /\ out = <<>> /\ items = 0

Emit1 == /\ stack # <<>> /\ Head(stack)[1] = "e"
         /\ out' = Append(out, Head(stack)[2])
         /\ stack' = Tail(stack) /\ UNCHANGED items

Params == /\ stack # <<>> /\ Head(stack)[1] = "A"
          /\ \/ stack' = Tail(stack) /\ UNCHANGED <<out, items>>
             \/ /\ Head(stack)[2] > 0 /\ items < MaxItems
                /\ \E n \in Names :
                     stack' = << <<"e", <<"P", n>>>>,
                                 <<"A", Head(stack)[2] - 1>> >> \o Tail(stack)
                /\ items' = items + 1 /\ UNCHANGED out

Body ==
    /\ stack # <<>> /\ Head(stack)[1] = "B"
    /\ LET d == Head(stack)[2] IN
       \/ stack' = Tail(stack) /\ UNCHANGED <<out, items>>      \* body ends
       \/ /\ items < MaxItems
          /\ items' = items + 1 /\ UNCHANGED out
          /\ \E n \in Names :
               \/ stack' = << <<"e", <<"V", n>>>> >> \o stack
               \/ stack' = << <<"e", <<"R", n>>>> >> \o stack
               \/ stack' = << <<"e", <<"p", n>>>> >> \o stack
               \/ /\ d < MaxDepth
                  /\ \/ /\ ~Head(stack)[3]
                        /\ stack' = << <<"e", <<"F", n>>>>, <<"A", MaxParams>>,
                                       <<"B", d + 1, FALSE>>, <<"e", <<")", "">>>> >>
                                     \o stack
                     \/ stack' = << <<"e", <<"E", n>>>>, <<"A", MaxParams>>,
                                    <<"B", d + 1, FALSE>>, <<"e", <<")", "">>>> >>
                                  \o stack
                     \/ stack' = << <<"e", <<"C", n>>>>, <<"B", d + 1, TRUE>>,
                                    <<"e", <<")", "">>>> >> \o stack
       \/ /\ items < MaxItems /\ d < MaxDepth
          /\ items' = items + 1 /\ UNCHANGED out
          /\ stack' = << <<"e", <<"E", "">>>>, <<"A", MaxParams>>,
                         <<"B", d + 1, FALSE>>, <<"e", <<")", "">>>> >> \o stack

Next == Emit1 \/ Params \/ Body
Spec == Init /\ [][Next]_vars

Done == stack = <<>>
EmitProgram == Done => PrintT(ToJson(out))
=============================================================================
