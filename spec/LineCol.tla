------------------------------ MODULE LineCol ------------------------------
(***************************************************************************)
(* Layer 1: ES5 line / column counting (ECMA-262 7.3).  Line terminators   *)
(* are LF, CR, LS (U+2028), PS (U+2029); CR LF is ONE terminator.  They    *)
(* count wherever they occur: between tokens, inside comments, inside      *)
(* string literals after a line continuation.                              *)
(*                                                                         *)
(* A text is a sequence of character-class codes.  A position is           *)
(* [off, line, col, cr]: 0-based offset, 1-based line and column, and      *)
(* whether the previous character was a CR (so that a following LF does    *)
(* not start another line).                                                *)
(***************************************************************************)
EXTENDS Naturals, Sequences

ANYC == 0    \* any other character
LF == 1
CR == 2
LS == 3
PS == 4
WS == 5      \* ES5 WhiteSpace: TAB VT FF SP NBSP BOM Zs

IsLT(c) == c \in {LF, CR, LS, PS}

Start == [off |-> 0, line |-> 1, col |-> 1, cr |-> FALSE]

\* consume one character of class c
Eat(p, c) ==
    IF c = LF /\ p.cr
    THEN \* second half of CR LF: the line already advanced; col stays 1
         [off |-> p.off + 1, line |-> p.line, col |-> 1, cr |-> FALSE]
    ELSE IF IsLT(c)
    THEN [off |-> p.off + 1, line |-> p.line + 1, col |-> 1, cr |-> (c = CR)]
    ELSE [off |-> p.off + 1, line |-> p.line, col |-> p.col + 1, cr |-> FALSE]

RECURSIVE EatN(_, _, _)
EatN(p, text, n) == IF n = 0 THEN p
                    ELSE EatN(Eat(p, text[p.off + 1]), text, n - 1)

\* position of offset `off` in `text` (by counting from the start)
PosOf(text, off) == EatN(Start, text, off)
=============================================================================
