#!/bin/sh
# usage: suite.sh  : run the repository's pinned test suite against a scratch
# copy of /repo's working tree (the pinned command imports the installed copy,
# so a fix is also validated on a copy put first on the path).  Scratch copy is
# removed afterwards.
D=$(mktemp -d /tmp/suite.XXXXXX)
cp -r /repo/src "$D/src"
find "$D" -name __pycache__ -prune -exec rm -rf {} + 2>/dev/null
( cd "$D/src" && PYTHONPATH="$D/src" /venv/bin/python -c "
import calmjs.parse, sys
assert calmjs.parse.__file__.startswith('$D'), calmjs.parse.__file__
from calmjs.parse.parsers import optimize
import calmjs.parse.parsers.es5 as pe
optimize.reoptimize(pe)
" && PYTHONPATH="$D/src" /venv/bin/python -m pytest -q -p no:cacheprovider --timeout=900 calmjs 2>&1 | tail -${TAIL:-8} )
rm -rf "$D"
