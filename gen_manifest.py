#!/usr/bin/env python3
"""Regenerates MANIFEST.json from the table below (single source of truth)."""
import json

CHECKS = {
    'C10': dict(
        category='model_checking', design_ref='5 (C10)',
        technique='TLA+ spec of the VLQ format and of the encoder/decoder loops, TLC invariants; TLC-generated table replayed into vlq.py; recorded codec results validated by VLQTrace.tla',
        text='TLC exhaustively checks that the modelled loops of vlq.py equal the Source Map V3 format and that the format is a canonical bijection for every value up to MaxLimbs base-32 limbs, boundary patterns up to 320 bits, lists and mapping structures; every table row is replayed into the real functions and big random values recorded from the real codec are validated by the trace specification.',
        note='Trusted: the digit-value/base64-alphabet mapping and bignum<->limb conversion in harness/c10.py; values beyond the exhaustive range are sampled.'),
    'C03': dict(
        category='model_checking', design_ref='5 (C03)',
        technique='TLA+ derivation machine of the ES5 grammar (ES5Grammar.tla) enumerated by TLC per theme; every derived sentence with its dictated tree replayed into parse(); complement strings, near-sentences (one grammar rule lifted) and mutations decided by the recogniser ES5Accept.tla',
        text='TLC enumerates every sentence up to MaxTok tokens of ten theme sub-grammars of an ECMA-262 5.1 grammar written as a leftmost-derivation machine, with the tree each derivation dictates; the real parser must build exactly that tree, and must reject every string over the theme alphabets up to length n that TLC did not derive, every near-sentence obtained by lifting one rule (12.4 look-ahead, NoIn, LeftHandSide, ASI restrictions), and every non-derivable single-token mutation (membership decided by TLC on the recogniser).',
        note='Bounded (token count, theme alphabets, one spelling per class per run); the grammar transcription is trusted, checked for unambiguity on every run; class-level negatives exclude classes whose text aliases another class (REGEX, get/set, IdentifierName).'),
    'C16': dict(
        category='model_checking', design_ref='5 (C16)',
        technique='trace validation: reflected tree + Walker().walk/filter/extract order of real parse trees validated by the TLA+ pre-order machine Traversal.tla in TLC batches; trees come from TLC-derived sentences (exhaustive themes + tlc -simulate deep derivations)',
        text='Every recorded walk must be a behaviour of the pre-order traversal machine over the tree found by attribute reflection (each stored node exactly once, parents first, subtrees contiguous, second walk identical, filter = walk-then-select, extract = n-th match or TypeError); TLC gives a verdict per tree naming the failing clause.  Trees cover every node kind with every optional-part mask the derivation machine produced.',
        note='Trusted: the reflection (vars(node), _children_list) in harness/c16.py; sibling order and comment nodes are not judged.'),
    'C06': dict(
        category='model_checking', design_ref='5 (C06)',
        technique='trace validation: token streams recorded from the real Lexer validated by the TLA+ machine LexTrace.tla (extends LineCol.tla) in TLC batches; inputs = all short strings over a lexical character alphabet + TLC-derived programs with rich layout',
        text='Each recorded token stream must be a behaviour of the LexTrace machine: tokens ordered and non-overlapping, every gap only white space / line terminators, every token at the line and column that LineCol counting (LF, CR, CRLF once, LS, PS, also inside tokens) reaches at its offset, text = input substring, longest punctuator, keyword iff exact spelling; TLC gives a verdict per stream naming the failing clause and token.',
        note='Trusted: character classification (unicodedata), substring/munch/keyword facts computed in harness/c06.py and asserted by the trace spec; AUTOSEMI tokens (no text) are not judged.'),
    'C11': dict(
        category='model_checking', design_ref='5 (C11)',
        technique='trace validation: (lexpos, lineno, colno) of every node and every _token_map entry of real trees validated by PosTrace.tla (LineCol machine) in TLC batches; which tokens a node owns is dictated by the ES5Grammar.tla derivation of the same program',
        text='For TLC-derived programs concretised with rich layout, every node position must be the LineCol position of its offset and must sit on the first token of the node or a terminal of its own production (ownership read off the derivation), and every token-map entry for a token present in the source must be an offset where that text occurs with consistent line/column; TLC gives a verdict per program naming the failing probe.',
        note='Trusted: pairing of dictated and real nodes (programs whose trees differ are skipped, that is C03), anchoring/substring facts computed in harness/c11.py and asserted by the trace spec; placeholders of omitted for-clauses, nodes without tokens and ASI semicolons exempt as the property states.'),
    'C08': dict(
        category='model_checking', design_ref='5 (C08)',
        technique='trace validation: explicitly positioned StreamFragments of the pretty / minify / obfuscating printers validated by PosTrace.tla (LineCol machine) in TLC batches; programs and the set of ASI-supplied semicolons come from ES5Grammar.tla derivations',
        text='For TLC-derived programs with rich layout (multi-line tokens, CR/CRLF/LS/PS, comments, with and without comment capture) every fragment with an explicit line:column must name a LineCol position of the source at which the source starts with the fragment token (original name when renamed, first comma of an elision run) and must name its own source file; semicolons the derivation marks as supplied by automatic insertion are exempt.  TLC gives a verdict per (program, printer) naming the failing fragment.',
        note='Trusted: line:column to offset conversion and starts-with facts in harness/c08.py (re-validated / asserted by PosTrace.tla); programs whose real tree differs from the dictated one are skipped (C03/C04).  The check asks what the statement asks (text occurs there), not that it is the same occurrence.'),
    'C04': dict(
        category='model_checking', design_ref='5 (C04)',
        technique='TLA+ model of where the implementation supplies semicolons (AsiImpl.tla: the restricted-production path of Lexer._token and the p_error / auto_semi path) checked by TLC against the virtual semicolons of the derivation (AsiOK) and bound to the code by comparing the positions with the AUTOSEMI tokens the real lexer hands to the parser (drift reported); TLA+ derivation machine with automatic semicolon insertion (ES5Grammar.tla: virtual semicolons, line-break flags, restricted productions, continuation sets) enumerated by TLC; every sentence replayed into parse() under 15 kinds of line-breaking layout plus its explicit-semicolon twin; near-sentences with one 7.9 rule lifted must be rejected (membership by ES5Accept.tla)',
        text='TLC enumerates every program of three ASI themes up to MaxTok tokens with up to MaxNL line breaks and the virtual semicolons 7.9 allows, with the dictated tree (identical to the explicit-semicolon tree by construction); the real parser must build that tree for every line-break layout kind (LF, CR, CRLF, LS, PS, comments before/after/containing the break, line comments) and for the explicit twin, and must reject the near-sentences obtained by lifting the restricted-production, empty-statement, for-header or offending-token rules.',
        note='Bounded (tokens, line breaks, layout kinds as class representatives); the continuation sets Cont(e) are transcribed by hand from the grammar.'),
    'C05': dict(
        category='model_checking', design_ref='5 (C05)',
        technique='TLA+ model of the implementation\'s slash decision (SlashImpl.tla: TOKENS_THAT_IMPLY_DIVISON, the header-parenthesis stack, the two backtracking rules of p_error) checked by TLC against the grammar on every derived sentence (SlashDecisionsOK) and bound to the code by comparing its first / final reading of every `/` with the token types the real lexer hands to the parser (drift reported); TLC-derived sentences of the slash themes carry the dictated class of every `/` (DIV, DIVEQUAL, REGEX); replayed into the parser with a recording lexer under varied layout (white-space kinds, comments, line breaks where derivable); token type chosen per slash offset and the tree compared with the derivation',
        text='For every sentence of three slash themes (every predecessor construct the grammar allows: header parentheses of if/for/while/with, call and grouping parentheses, brackets, braces of blocks / objects / functions, operands, postfix and prefix operators, keywords, property names) the token type the parser-driven lexer finally chose at each slash offset and the resulting tree must equal what the derivation dictates, for rotating layout kinds around the slash.',
        note='Bounded; layout kinds are class representatives; the recording lexer subclass observes token() results only.'),
    'C01': dict(
        category='model_checking', design_ref='5 (C01)',
        technique='TLC-derived programs pretty-printed with five indentation strings; real re-parse (same tree) and fixpoint; printed text aligned to the tokens the derivation dictates and validated by PrintTrace.tla with the no-fusion oracle ES5Lexical.tla (FuseTrace.tla)',
        text='For TLC-derived programs (11 themes + simulate deep derivations, rich spellings, varied source layout) x 5 indentation strings: the real parser must read the output as the same tree and re-printing must reproduce it byte for byte; independently of this parser TLC validates the aligned output: same token sequence as the derivation dictates, no two adjacent tokens fuse under the ES5 lexical grammar (longest-match tokeniser over character classes written from ECMA-262 section 7), no line terminator in a restricted position.',
        note='Bounded; alignment and character classification are harness code; programs the parser reads differently from the derivation are skipped (C03-C05).'),
    'C02': dict(
        category='model_checking', design_ref='5 (C02)',
        technique='as C01 for minify_print with drop_semi off/on; PrintTrace.tla decides which absent semicolons are legal from the token roles the derivation dictates (terminator / empty statement as list member or as statement body / for header), ES5Lexical.tla decides fusion for every distinct adjacency',
        text='For TLC-derived programs x {drop_semi off, on}: real re-parse gives the same tree modulo the two documented normalisations; TLC validates the aligned output: every absent token is a semicolon automatic insertion restores (followed by "}" or end of text) or a stand-alone empty statement, never a for-header semicolon or a statement body; no adjacent pair fuses (division/regex, regex flags, numeric dot, ++/--, words incl. non-ASCII identifier parts).  The evidence lists the (kind, char class | char class, kind) adjacencies without separator that were judged.',
        note='Bounded; alignment and character classification are harness code; when a run of consecutive semicolons is partly dropped the most favourable reading is taken.'),
    'C20': dict(
        category='model_checking', design_ref='5 (C20)',
        technique='pretty output aligned to the derivation tokens; PrintTrace.tla checks per line-starting token leading white space = indent_str x depth (depth from the braces / case bodies of the derivation), one final newline, Indentator level 0; also for a reused printer object after an abandoned rendering',
        text='For TLC-derived programs with braces x 5 indentation strings (incl. empty and tab), each line of pretty_print output that starts a token must be indented by exactly indent_str x nesting depth dictated by the derivation (blocks, function bodies, object literals, switch blocks, +1 in case bodies), the text must end with exactly one newline and the recorded indentation level must be back at zero; the same is required from a printer object that is reused after a rendering was abandoned midway.',
        note='Depth is computed by the harness from the derivation brackets; lines inside multi-line tokens are never line starts; comment lines are not judged here (C13).'),
    'C09': dict(
        category='model_checking', design_ref='5 (C09)',
        technique='TLA+ model of the writer (MapWriter.tla: Bookkeeper registers, Names allocators, per-line loop, normalize_mapping_line) checked by TLC against the format semantics (SourceMapV3.tla) on every fragment-kind stream up to length n; every TLC state is replayed into the real sourcemap.write (result must equal the model, drift reported); trace validation: mappings returned for those streams and for real printer streams are decoded by the TLA+ decoder SourceMapV3.tla and every explicitly positioned fragment is looked up at its generated position (MapTrace.tla, TLC batches)',
        text='TLC checks on the modelled writer, and MapTrace on the real one, that for every sequence up to length n (plus tlc -simulate walks to length 8) over 18 fragment kinds (positioned, renamed shorter/longer, inferred, unmapped, newline variants, multi-line tokens with LF and CR, source changes, NotImplemented source) x normalize x first-source variant, and for the fragment streams of the pretty / minify / obfuscating printers on TLC-derived programs (one and two sources): decoding the returned mappings with a decoder written from the Source Map V3 format must map the generated position of each explicitly positioned fragment to its source, line, column (by interpolation only when normalising) and original name; indices in range, generated columns non-decreasing, number of mapping lines = number of text lines; the VLQ string decodes to the raw tuples.',
        note='Trusted: generated positions computed by the harness from the written text; streams that split a CR LF pair over two fragments are excluded as not well-formed; an empty-text fragment is not taken to say anything about the current source (write() skips it - noted in DESIGN).'),
    'C18': dict(
        category='fault_enumeration', design_ref='5 (C18)',
        technique='TLA+ model of the io.write / io.read step sequence with every fault point (IOWrite.tla), model-checked by TLC against the stream contract; every behaviour replayed against the real helpers with instrumented stream doubles raising at the chosen call; recorded event logs validated by StreamTrace.tla',
        text='TLC enumerates every arrangement (output as factory or open stream; map as none, factory, open stream or the same argument; one node, list, generator) x every fault point (factory call, k-th write for every k, unparser raising midway, map factory, writelines, map write; for read: factory, read(), parse error) and checks the modelled step sequence against the contract; each behaviour is replayed against the real code for several programs, printers and absolute/relative names; TLC judges every recorded log: factory streams closed exactly once, passed-in streams never closed, no use after close, the injected failure propagates (syntax errors re-labelled with the stream name), and on success output text, sourceMappingURL and map content equal what the lower-level API yields.',
        note='Faults are exceptions raised by the doubles; close() itself never fails; content facts are computed by the harness from the lower-level API (sourcemap.write, verify_write_sourcemap_args, encode_sourcemap).'),
    'C19': dict(
        category='exploration', design_ref='5 (C19)',
        technique='model-based test generation: JSON values enumerated by TLC from the generator JsonValue.tla per theme (all number spellings, all string escapes, key kinds, nesting), spelled and replayed into ast_to_dict; json.loads of the spelled text is the expected value',
        text='Every value the generator derives within the bounds (nodes, depth, width) for four themes x {var, assignment, nested in a function} x {fold_ops off, on}; the extracted dictionary must equal exactly {name: JSON value} with type-exact comparison.  TLC only enumerates here; the claim is exhaustive exploration of the bounded value space, not a proof about the Python function.',
        note='json.loads is the oracle for the spelled literal; the sign of an integer zero is not compared; spellings are the JSON-compatible ones.'),
    'C12': dict(
        category='exploration', design_ref='5 (C12)',
        technique='exhaustive short strings over a nasty character alphabet + all truncations and seeded single-character mutations of TLC-derived programs, run under a watchdog; exception type judged directly, message positions validated by PosTrace.tla (LineCol machine)',
        text='Every string up to length k over 39 characters (incl. NUL, lone surrogate, astral, BOM, LS, quote / backslash / slash / star starters) and longer ones over 18 characters, plus every truncation and seeded single-character deletion / replacement / insertion of TLC-derived programs, is parsed with and without comment capture and lexed: the outcome must be a tree or ECMASyntaxError (subclass), within the watchdog; TLC checks that the line:column of each message is a LineCol position of the input at which the quoted text occurs.  Totality is explored on this domain, not proved.',
        note='Watchdog 10 s per input stands for non-termination; RecursionError is treated as a Python resource limit; the message grammar is parsed by the harness.'),
    'C14': dict(
        category='model_checking', design_ref='5 (C14)',
        technique='TLC enumerates all call histories (start / step / finish / abandon / raise, two generators alive) from PureCalls.tla; each is performed on real reused printer objects; recorded result / tree / shared-state digests validated by PureTrace.tla',
        text='Every history of MaxLen operations over two reused printer objects (five configurations incl. obfuscating and indenting ones) and three trees - with calls abandoned after partial consumption, calls that raise midway on a malformed tree, and two generators stepped alternately - is performed; TLC validates every recorded history: each finished call yields exactly the fragment sequence of a fresh printer, the trees (with positions and token maps) and the shared objects (surrogate Elision separator, definitions, rule tables) never change.  The shortcuts str(node) and es5.pretty_print / minify_print on text are compared with the explicit calls.',
        note='Digests (sha1 over reflection snapshots) stand for equality; the reference result comes from a fresh printer object before any history is performed.'),
    'C15': dict(
        category='model_checking', design_ref='5 (C15)',
        technique='reference outcomes from a fresh interpreter per call; sequential histories enumerated over a pool of valid / invalid texts; token-level interleavings of two parses enumerated by TLC (PureCalls.tla) and realised with real threads gated at every token; thread-pool stress; all recorded histories validated by PureTrace.tla',
        text='Over a pool of 10 texts (half invalid: unclosed parenthesis, surplus parenthesis, lexical error, syntax error, production error) x comment flag: sequential histories of two and three calls; every interleaving at token granularity of two parses (TLC-enumerated schedules executed by gating real threads inside the lexer token hand-over); free-running thread pools under three switch intervals.  TLC checks for every recorded history that each finished call returns the outcome (tree with positions, or exception type and message) a fresh interpreter gives.',
        note='Pre-emption inside a token step is stressed, not enumerated; outcome equality is by digest.'),
    'C17': dict(
        category='model_checking', design_ref='5 (C17)',
        technique='TLC enumerates maintenance histories of the table modules (TabsImpl.tla); each history and each table configuration is exercised in a fresh interpreter on a scratch copy; full outcomes over a TLC-derived input pool compared pairwise',
        text='For an input pool of TLC-derived programs (with line-break layouts that exercise the ASI / regex backtracking paths) and non-derivable mutations, the full outcome (tree with positions and values, or exception type and message) is computed in fresh interpreters with: generated modules, absent modules, modules regenerated by `python -m calmjs.parse.parsers.optimize`, and after every TabsImpl history (purge, reoptimize, optimize_build, parser constructions) x {default optimised parser, lex/yacc optimisation off}.  All outcomes must be equal.',
        note='Only ply 3.11 / Python 3.12 exist in the sandbox; the TabsImpl model predicts the presence of the modules on disk after a history (drift is reported, not judged).'),
    'C13': dict(
        category='model_checking', design_ref='5 (C13)',
        technique='TLC-derived sentences (with line-break flags) get comments placed in rotating gaps; replayed into parse with / without capture (dictated tree), attached comments validated as position probes by PosTrace.tla, pretty-print round trip compared',
        text='For TLC-derived programs of 7 themes with one or two comments (single-line block anywhere; line comments and multi-line block comments where the derivation has a line break or at the end; adjacent pairs): parsing with capture must give the same verdict and the dictated tree as without; every attached comment must be a verbatim placed comment at its recorded offset / line / column (TLC, LineCol machine), not attached twice; pretty-printing and re-parsing with capture must give the same tree and the same comments in traversal order.',
        note='Capturing all comments is not demanded; three named deviations of the round-trip clause are listed in known_findings.json and recognised by a predicate on the printed text (cause classes), anything else is a violation.'),
    'C07': dict(
        category='model_checking', design_ref='5 (C07)',
        technique='TLA+ model of the obfuscator (ObfuscatorImpl.tla: Scope / CatchScope bookkeeping, reference-count leaking, reserved symbols, remap order, name generator) checked by TLC to be capture-free under the ES5 scope semantics (ScopeSem.tla) on every abstract program, and bound to the code by comparing the generated names with the real printers\' (drift reported); TLC enumerates abstract programs as scope trees (ScopeGen.tla, exhaustive + tlc -simulate); each is rendered, parsed and printed with / without obfuscation in 5 configurations; the recorded renaming of every identifier occurrence is validated by the ES5 scope-resolution specification ScopeTrace.tla in TLC batches',
        text='For every scope tree up to MaxItems items (function declarations, named / anonymous function expressions, catch blocks, parameters, hoisted vars, references, property names over a 3-name pool so that names collide with free names), seeded deeper simulated trees and wide scopes of 53 / 54 / 60 / 600 declarations (multi-letter generated names, the keywords do / if / in), x {minify, +globals, +shadow_funcname, +drop_semi+globals+shadow, indent+obfuscate}: the obfuscated output parses, differs from the un-obfuscated output of the same printer in identifier tokens only, and TLC resolves every occurrence before and after by the ES5 rules: same variable after iff same before, free / property / (unless requested) top-level names unchanged, no generated reserved word.',
        note='Rendered programs hold no with / eval / labels / strings; function declarations inside catch blocks are not generated (ES5 gives them no meaning).  One design deviation (name of a function expression bound in the enclosing scope) is a known finding, attributed by re-judging the record under that design with the same specification.'),
}

NOT_YET = {}
MULTI = {'C01', 'C02', 'C03', 'C04', 'C05', 'C07', 'C08', 'C11', 'C12', 'C13', 'C17', 'C20'}

def main():
    props = [json.loads(l) for l in open('properties.jsonl')]
    checks = []
    na = []
    for p in props:
        pid = p['id']
        c = CHECKS.get(pid)
        if not c:
            na.append({'property_id': pid, 'reason': NOT_YET.get(pid, 'check not built yet in this revision of /verif (planned, see DESIGN.md section 5)')})
            continue
        checks.append({
            'property_id': pid,
            'quick_cmd': './check %s --tier quick' % pid,
            'thorough_cmd': './check %s --tier thorough' % pid,
            'evidence_file': 'evidence/%s.json' % pid,
            'replay_cmd_template': './check %s --replay {path}' % pid,
            'engine': 'tlc+replay',
            'level_claimed': {'category': c['category'], 'text': c['text'], 'design_ref': c['design_ref']},
            'level_note': c['note'] + (' Thorough tier: the quick generation under four consecutive seeds, one after the other (the larger own parameters could not be run to completion within the memory and time of the sandbox, DESIGN 11.7).' if pid in MULTI else ' Thorough tier: larger bounds (DESIGN 11.7).'),
            'technique': c['technique'],
        })
    m = {
        'version': 1,
        'setup_cmd': './setup.sh',
        'hooks': {
            'guard': 'CALMJS_PARSE_VERIF',
            'enable': 'checks copy /repo/src/calmjs to a scratch directory, regenerate the ply tables there and import it with CALMJS_PARSE_VERIF=1; recording uses seams the library already exposes (no source hooks so far)',
            'baseline_off_cmd': 'cd /repo && /venv/bin/python -m pytest -ra -q -p no:cacheprovider --timeout=900 --continue-on-collection-errors',
            'source_commits': [],
            'add_only': True,
        },
        'engines': [{
            'name': 'tlc+replay', 'path': 'harness/',
            'serves_properties': sorted(CHECKS),
            'kind_free_text': 'explicit TLA+ specifications in spec/ checked by TLC; behaviours generated by TLC are replayed into a scratch build of /repo (spec->code) and records taken from the real code are validated by TLC trace specifications (code->spec)',
        }],
        'checks': checks,
        'not_applicable': na,
        'notes': 'See DESIGN.md.  known_findings.json lists genuine defects of the unchanged tree by abstract signature.',
    }
    json.dump(m, open('MANIFEST.json', 'w'), indent=1)
    print('claimed', len(checks), 'not_applicable', len(na))

if __name__ == '__main__':
    main()
