#!/bin/sh
# usage: seedtest2.sh <round-dir|.> <Cxx> [check-id] : apply a seeded patch to the scratch worktree /tmp/clean2, run the check against it, undo
R=$1; P=$2; C=${3:-$2}
W=/tmp/clean2
git -C $W checkout -q -- . ; git -C $W apply /verif/seeded/$R/$P/patch.diff || exit 2
VERIF_REPO=$W ./check $C --tier ${TIER:-quick} 2>&1 | grep -v '^WARNING' | grep -E "^VIOLATION|signature:|^C[0-9]+ (quick|thorough)|MACHINERY|Error" | head -${LINES_SHOWN:-5} | cut -c1-260
git -C $W checkout -q -- .
git -C /verif checkout -- evidence 2>/dev/null
