#!/bin/sh
# usage: sigs.sh <Cxx> [tier] : run a check and summarise violation signatures by cause (review aid only)
./check $1 --tier ${2:-quick} > /tmp/sigs.$$ 2>&1
python3 - $1 <<'PY'
import json,sys,re,collections
e=json.load(open('/verif/evidence/%s.json'%sys.argv[1]))
sigs=e['coverage']['violation_signatures']
print('distinct signatures', len(sigs), 'violations', sum(sigs.values()))
agg=collections.Counter()
for k,v in sigs.items():
    m=re.search(r'(expected=\S+ got=\S+ (?:rule=\S+ )?cause=\S+)', k)
    agg[m.group(1) if m else k]+=v
for k,v in sorted(agg.items()): print(v,k)
print('known:', e['coverage']['known_findings_hit'] and len(e['coverage']['known_findings_hit']), 'wall', e['wall_s'], e['coverage'].get('timeline_s'))
PY
tail -1 /tmp/sigs.$$; rm -f /tmp/sigs.$$
